"""C04 -- the parsed class structure reflects the source declarations.

E4: class texts are generated from a feature grammar.  The generator builds a small class model of its own
(sections, clauses, declarators, modifications, equations ...), one walker prints it and an independent walker
records what a faithful parse must contain; pymoca's tree is compared with that record.

  family A  every feature vector within <= k deviations of a base class (k = 2 quick, 3 thorough);
  family B  the full product (section order x declarator count): every sequence of up to L sections out of
            {public, protected, equation, initial equation, algorithm, initial algorithm} after the unlabelled
            element list (L = 3 quick, 4 thorough) x {1, 2, 3} declarators / items per section, plus each section
            emptied in turn.

Oracle (per class, recursively): each declared component once, with name, type, prefixes, dimensions (own
subscripts followed by the clause's), visibility of its section (pymoca's convention: unlabelled -> PRIVATE),
`order` strictly increasing in source order, comment, modifications / value evaluating to the printed values;
equations / statements in source order in the right one of the four lists; nested classes, extends, imports on
the declaring class; a name declared twice in one class => rejected (exception or None).  Aliasing: every
symbol's mutable fields are mutated in place in turn, all other symbols must stay as they were.
"""
import hashlib
import itertools

from pymoca import ast, parser  # vf.run has put the subject tree first on sys.path

from vf.checks import c03
from vf.core import common
from vf.ref import expr as X

LEVEL = "exploration"

ENV = {"n": 7, "nv": 2.25}
NAMES = ("zq", "ab", "mm")  # declaration order is not alphabetical order
ELEM = ("unl", "pub", "pro")
BEHAV = ("eq", "ieq", "alg", "ialg")
LABEL = {
    "unl": "",
    "pub": "public",
    "pro": "protected",
    "pub0": "public",
    "pro0": "protected",
    "eq": "equation",
    "ieq": "initial equation",
    "alg": "algorithm",
    "ialg": "initial algorithm",
}
VIS = {"": "PRIVATE", "public": "PUBLIC", "protected": "PROTECTED"}  # pymoca's convention for the unlabelled list

Nn = lambda v: ("num", str(v))  # noqa: E731


# ---- the generator's own class model -----------------------------------------------------------------------
# class   {"kind", "name", "sections": [section]}
# section {"kind": unl|pub|pro|pub0|pro0|eq|ieq|alg|ialg, "items": [...]}
# element ("clause", {"prefixes", "type": path, "cdims", "decls": [decl]}) | ("import", form, ...) |
#         ("extends", path, [mod]) | ("class", class) | ("short", kind, name, base path, [mod])
# decl    {"name", "dims", "mods": [mod], "value": expr | None, "comment": (part, ...)}  ("a" + "b" is the comment ab)
# mod     {"path", "each", "sub": [mod], "value": expr | None}  |  {"redeclare": (type, name, value expr)}
# dims    ints, names (evaluated in ENV) or ":"
# expr    vf.ref.expr tuples, plus ("arr", (expr, ...))


def mk_decl(name, dims=(), mods=(), value=None, comment=(), op="=", annotation=False):
    return {"name": name, "dims": tuple(dims), "mods": list(mods), "value": value, "comment": tuple(comment), "op": op, "annotation": annotation}


def mk_mod(path, value=None, sub=(), each=False):
    return {"path": tuple(path), "each": each, "sub": list(sub), "value": value}


def mk_clause(type_, decls, prefixes=(), cdims=()):
    return ("clause", {"prefixes": list(prefixes), "type": tuple(type_.split(".")), "cdims": tuple(cdims), "decls": list(decls)})


def sec(kind, items=()):
    return {"kind": kind, "items": list(items)}


# ---- printer ------------------------------------------------------------------------------------------------


def p_expr(e):
    if e[0] == "arr":
        return "{%s}" % ", ".join(p_expr(x) for x in e[1])
    return X.pr(e)


def p_dims(d):
    return "[%s]" % ", ".join(str(x) for x in d) if d else ""


def p_mod(m):
    if "redeclare" in m:
        t, n, v = m["redeclare"]
        return "redeclare %s %s%s" % (t, n, " = " + p_expr(v) if v is not None else "")
    s = ("each " if m["each"] else "") + ".".join(m["path"])
    if m["sub"]:
        s += "(%s)" % ", ".join(p_mod(x) for x in m["sub"])
    if m["value"] is not None:
        s += " = " + p_expr(m["value"])
    return s


def p_mods(ms):
    return "(%s)" % ", ".join(p_mod(m) for m in ms) if ms else ""


def p_decl(d):
    s = d["name"] + p_dims(d["dims"]) + p_mods(d["mods"])
    if d["value"] is not None:
        s += " %s %s" % (d["op"], p_expr(d["value"]))
    if d["comment"]:
        s += " " + " + ".join('"%s"' % part for part in d["comment"])
    if d["annotation"]:
        s += " annotation(Evaluate = true, Dialog(group = \"g\"))"
    return s


def p_item(it, ind):
    k = it[0]
    if k == "eq":
        return ["%s%s = %d%s;" % (ind, it[1], it[2], ' "%s"' % it[3] if it[3] else "")]
    if k == "assign":
        return ["%s%s := %d%s;" % (ind, it[1], it[2], ' "%s"' % it[3] if it[3] else "")]
    if k in ("if", "ifs"):
        op = "=" if k == "if" else ":="
        return [
            "%sif %s > %d then" % (ind, it[1], it[2]),
            "%s  %s %s 1;" % (ind, it[1], op),
            ind + "else",
            "%s  %s %s 2;" % (ind, it[1], op),
            ind + "end if;",
        ]
    if k in ("for", "fors"):
        op = "=" if k == "for" else ":="
        return ["%sfor i in 1:%d loop" % (ind, it[2]), "%s  %s %s i;" % (ind, it[1], op), ind + "end for;"]
    if k == "connect":
        return ["%sconnect(p%d, q%d.r);" % (ind, it[2], it[2])]
    raise ValueError(it)


def p_element(el, ind):
    k = el[0]
    if k == "clause":
        c = el[1]
        head = " ".join(c["prefixes"] + [".".join(c["type"]) + p_dims(c["cdims"])])
        return ["%s%s %s;" % (ind, head, ", ".join(p_decl(d) for d in c["decls"]))]
    if k == "import":
        form = el[1]
        if form == "q":
            return ["%simport %s;" % (ind, ".".join(el[2]))]
        if form == "r":
            return ["%simport %s = %s;" % (ind, el[2], ".".join(el[3]))]
        if form == "l":
            return ["%simport %s.{%s};" % (ind, ".".join(el[2]), ", ".join(el[3]))]
        return ["%simport %s.*;" % (ind, ".".join(el[2]))]
    if k == "extends":
        return ["%sextends %s%s;" % (ind, ".".join(el[1]), p_mods(el[2]))]
    if k == "class":
        lines = p_class(el[1], ind)
        lines[-1] += ";"
        return lines
    if k == "short":
        return ["%s%s %s = %s%s;" % (ind, el[1], el[2], ".".join(el[3]), p_mods(el[4]))]
    raise ValueError(el)


def p_class(c, ind=""):
    out = ["%s%s %s" % (ind, c["kind"], c["name"])]
    for s in c["sections"]:
        if s["kind"] != "unl":
            out.append(ind + LABEL[s["kind"]])
        for it in s["items"]:
            out += (p_element if s["kind"] in ELEM else p_item)(it, ind + "  ")
    if c.get("annotation"):
        out.append(ind + '  annotation(Icon(coordinateSystem(extent = {{-100, -100}, {100, 100}})), version = "1", uses);')
    out.append("%send %s" % (ind, c["name"]))
    return out


def p_file(classes, within=()):
    head = "within %s;\n\n" % ".".join(within) if within else ""
    return head + "\n\n".join("\n".join(p_class(c)) + ";" for c in classes) + "\n"


# ---- reference record (what a faithful parse contains) ------------------------------------------------------


def tv(v):
    """type-tagged json-able value (5 is not 5.0 is not True)"""
    if isinstance(v, (list, tuple)):
        return ["list", [tv(x) for x in v]]
    return [type(v).__name__, v]


def ref_eval(e):
    if e[0] == "arr":
        return [ref_eval(x) for x in e[1]]
    return X.ev(e, ENV)


def ref_dim(d):
    return ":" if d == ":" else tv(ENV[d] if isinstance(d, str) else d)


def ref_mods(ms, prefix=()):
    out = []
    for m in ms:
        if "redeclare" in m:
            t, n, v = m["redeclare"]
            out.append([".".join(prefix + ("redeclare " + n,)), tv(t)])
            continue
        path = prefix + m["path"]
        out += ref_mods(m["sub"], path)
        if m["value"] is not None:
            out.append([".".join(path), tv(ref_eval(m["value"]))])
    return out


def ref_item(it):
    k = it[0]
    ref, lit = (lambda n: ["ref", n]), (lambda v: ["lit", tv(v)])
    if k == "eq":
        return ["eq", ref(it[1]), lit(it[2])]
    if k == "assign":
        return ["assign", [ref(it[1])], lit(it[2])]
    if k in ("if", "ifs"):
        one = (lambda v: ["eq", ref(it[1]), lit(v)]) if k == "if" else (lambda v: ["assign", [ref(it[1])], lit(v)])
        return ["if", [[["op", ">", [ref(it[1]), lit(it[2])]], [one(1)]], [["else"], [one(2)]]]]
    if k in ("for", "fors"):
        body = ["eq", ref(it[1]), ref("i")] if k == "for" else ["assign", [ref(it[1])], ref("i")]
        return ["for", [["i", ["slice", lit(1), lit(it[2]), lit(1)]]], [body]]
    if k == "connect":
        return ["connect", ref("p%d" % it[2]), ref("q%d.r" % it[2])]
    raise ValueError(it)


def new_rec(kind):
    return {"kind": kind, "symbols": [], "eq": [], "ieq": [], "alg": [], "ialg": [], "extends": [], "imports": {"named": {}, "wild": []}, "classes": {}, "class_order": [], "import_forms": []}


def ref_class(c):
    """Expected record; symbols carry `where` (trigger description used only for signatures)."""
    r = new_rec(c["kind"])
    labels = [LABEL[s["kind"]] for s in c["sections"] if s["kind"] in ELEM + ("pub0", "pro0")]
    ei = -1
    for s in c["sections"]:
        k = s["kind"]
        if k in ("pub0", "pro0"):
            ei += 1
            continue
        if k in BEHAV:
            r[k] += [ref_item(it) for it in s["items"]]
            continue
        ei += 1
        label = LABEL[k]
        last = label not in labels[ei + 1 :]
        for el in s["items"]:
            e = el[0]
            if e == "clause":
                c1 = el[1]
                for pos, d in enumerate(c1["decls"]):
                    mods = ref_mods(d["mods"])
                    if d["value"] is not None:
                        mods.append(["value", tv(ref_eval(d["value"]))])
                    r["symbols"].append(
                        {
                            "name": d["name"],
                            "type": ".".join(c1["type"]),
                            "prefixes": sorted(c1["prefixes"]),
                            "dims": [ref_dim(x) for x in d["dims"] + c1["cdims"]],
                            "vis": VIS[label],
                            "comment": "".join(d["comment"]),
                            "mods": sorted(mods, key=repr),
                            "where": {
                                "section": "%s:%s" % (label or "unlabelled", "last" if last else "not-last"),
                                "dims": "clause+own-subscripts" if c1["cdims"] and d["dims"] else ("clause-subscripts" if c1["cdims"] else "own-subscripts" if d["dims"] else "scalar"),
                                "pos": "declarator%d/%d" % (pos + 1, len(c1["decls"])),
                                "comment": "concatenated" if len(d["comment"]) > 1 else "plain",
                            },
                        }
                    )
            elif e == "import":
                form = el[1]
                r["import_forms"].append({"q": "qualified", "r": "renamed", "w": "wildcard"}.get(form) or "list-of-%d" % len(el[3]))
                if form == "q":
                    r["imports"]["named"][el[2][-1]] = ".".join(el[2])
                elif form == "r":
                    r["imports"]["named"][el[2]] = ".".join(el[3])
                elif form == "l":
                    for n in el[3]:
                        r["imports"]["named"][n] = ".".join(el[2] + (n,))
                else:
                    r["imports"]["wild"].append(".".join(el[2]))
            elif e == "extends":
                r["extends"].append([".".join(el[1]), sorted(ref_mods(el[2]), key=repr)])
            elif e == "class":
                r["classes"][el[1]["name"]] = ref_class(el[1])
                r["class_order"].append(el[1]["name"])
            elif e == "short":
                sr = new_rec(el[1])
                sr["extends"].append([".".join(el[3]), sorted(ref_mods(el[4]), key=repr)])
                r["classes"][el[2]] = sr
                r["class_order"].append(el[2])
    return r


def has_duplicate(c):
    names = [d["name"] for s in c["sections"] if s["kind"] in ELEM for el in s["items"] if el[0] == "clause" for d in el[1]["decls"]]
    if len(names) != len(set(names)):
        return True
    return any(has_duplicate(el[1]) for s in c["sections"] if s["kind"] in ELEM for el in s["items"] if el[0] == "class")


# ---- observation of pymoca's tree ---------------------------------------------------------------------------


def ev_p(n):
    if isinstance(n, ast.Array):
        return [ev_p(v) for v in n.values]
    return c03.ev_past(n, ENV)


def obs_mods(cm, prefix=()):
    out = []
    if cm is None:
        return out
    for arg in cm.arguments:
        v = arg.value
        if isinstance(v, ast.ComponentClause):
            out.append([".".join(prefix + ("redeclare " + ",".join(s.name for s in v.symbol_list),)), tv(str(v.type))])
            continue
        if not isinstance(v, ast.ElementModification):
            out.append([".".join(prefix + ("?",)), tv(repr(v))])
            continue
        path = prefix + v.component.to_tuple()
        for m in v.modifications:
            if isinstance(m, ast.ClassModification):
                out += obs_mods(m, path)
            else:
                try:
                    val = tv(ev_p(m))
                except Exception as e:  # something outside the printed alphabet ended up here
                    val = ["unevaluable", "%s: %r" % (type(e).__name__, m)]
                out.append([".".join(path), val])
    return out


def obs_dims(dims):
    out = []
    for inner in dims:
        for d in inner:
            if isinstance(d, ast.Primary) and d.value is None:
                continue
            if isinstance(d, ast.Slice):
                out.append(":" if isinstance(d.start, ast.Primary) and d.start.value is None else ["slice", repr(d)])
                continue
            try:
                out.append(tv(ev_p(d)))
            except Exception as e:
                out.append(["unevaluable", "%s: %r" % (type(e).__name__, d)])
    return out


def obs_symbol(s):
    return {
        "name": s.name,
        "type": ".".join(s.type.to_tuple()) if isinstance(s.type, ast.ComponentRef) else "<%s>" % type(s.type).__name__,
        "prefixes": sorted(str(p) for p in s.prefixes),
        "dims": obs_dims(s.dimensions),
        "vis": getattr(s.visibility, "name", repr(s.visibility)),
        "comment": s.comment,
        "mods": sorted(obs_mods(s.class_modification), key=repr),
    }


def cx(n):
    if n is True:
        return ["else"]
    if isinstance(n, ast.Primary):
        return ["lit", tv(n.value)]
    if isinstance(n, ast.ComponentRef):
        return ["ref", ".".join(n.to_tuple())]
    if isinstance(n, ast.Slice):
        return ["slice", cx(n.start), cx(n.stop), cx(n.step)]
    if isinstance(n, ast.Expression):
        return ["op", n.operator if isinstance(n.operator, str) else cx(n.operator), [cx(o) for o in n.operands]]
    return ["?", repr(n)]


def obs_item(e):
    if isinstance(e, ast.Equation):
        return ["eq", cx(e.left), cx(e.right)]
    if isinstance(e, ast.AssignmentStatement):
        return ["assign", [cx(x) for x in e.left], cx(e.right)]
    if isinstance(e, (ast.IfEquation, ast.IfStatement)):
        return ["if", [[cx(c), [obs_item(b) for b in blk]] for c, blk in zip(e.conditions, e.blocks)]]
    if isinstance(e, ast.ForEquation):
        return ["for", [[i.name, cx(i.expression)] for i in e.indices], [obs_item(b) for b in e.equations]]
    if isinstance(e, ast.ForStatement):
        return ["for", [[i.name, cx(i.expression)] for i in e.indices], [obs_item(b) for b in e.statements]]
    if isinstance(e, ast.ConnectClause):
        return ["connect", cx(e.left), cx(e.right)]
    return ["?", repr(e)]


def obs_imports(imps):
    named, wild = {}, []
    for k, v in imps.items():
        if k == "*":
            wild += [".".join(c.to_tuple()) for c in v.components]
        elif isinstance(v, ast.ImportClause):
            named[k] = ",".join(".".join(c.to_tuple()) for c in v.components)
        else:
            named[k] = ".".join(v.to_tuple())
    return {"named": named, "wild": wild}


def obs_class(c):
    return {
        "kind": c.type,
        "symbols": [dict(obs_symbol(s), key=k, order=s.order) for k, s in c.symbols.items()],
        "eq": [obs_item(e) for e in c.equations],
        "ieq": [obs_item(e) for e in c.initial_equations],
        "alg": [obs_item(e) for e in c.statements],
        "ialg": [obs_item(e) for e in c.initial_statements],
        "extends": [[".".join(x.component.to_tuple()), sorted(obs_mods(x.class_modification), key=repr)] for x in c.extends],
        "imports": obs_imports(c.imports),
        "classes": {k: obs_class(v) for k, v in c.classes.items()},
    }


# ---- comparison -----------------------------------------------------------------------------------------------

SYMBOL_FIELDS = ("type", "prefixes", "dims", "vis", "comment", "mods")


def compare(want, got, path, out):
    """want: ref_class record, got: obs_class record; appends (signature, message)."""
    if got["kind"] != want["kind"]:
        out.append(("class-kind:" + want["kind"], "%s is declared as %s, parsed type is %r" % (path, want["kind"], got["kind"])))
    wn = [s["name"] for s in want["symbols"]]
    gn = [s["key"] for s in got["symbols"]]
    for n in wn:
        if n not in gn:
            out.append(("component-missing", "%s: declared component %s is not among the parsed symbols %r" % (path, n, gn)))
    for n in gn:
        if n not in wn:
            out.append(("component-unexpected", "%s: parsed symbols contain %s, which the class does not declare (declared: %r)" % (path, n, wn)))
    bykey = {s["key"]: s for s in got["symbols"]}
    orders = []
    for ws in want["symbols"]:
        gs = bykey.get(ws["name"])
        if gs is None:
            continue
        orders.append((ws["name"], gs["order"]))
        if gs["name"] != ws["name"]:
            out.append(("component-name", "%s: symbol stored under %s has name %r" % (path, ws["name"], gs["name"])))
        for f in SYMBOL_FIELDS:
            if gs[f] != ws[f]:
                wh = ws["where"]
                trig = {
                    "vis": "%s-section:got-%s" % (wh["section"], gs["vis"]),
                    "dims": wh["dims"],
                    "prefixes": "+".join(ws["prefixes"]) or "none",
                    "type": ws["type"],
                    "comment": wh["comment"],
                    "mods": wh["pos"],
                }[f]
                out.append(("component-%s:%s" % (f, trig), "%s.%s: %s is %r, the source says %r" % (path, ws["name"], f, gs[f], ws[f])))
    for (n1, o1), (n2, o2) in zip(orders, orders[1:]):
        if not (isinstance(o1, int) and isinstance(o2, int) and o1 < o2):
            out.append(("order-not-increasing", "%s: %s (order %r) is declared before %s (order %r)" % (path, n1, o1, n2, o2)))
            break
    for k in BEHAV:
        if got[k] != want[k]:
            others = [j for j in BEHAV if j != k and want[k] and all(x in got[j] for x in want[k])]
            what = "in-wrong-list:" + others[0] if others else ("order" if sorted(map(repr, got[k])) == sorted(map(repr, want[k])) else "content")
            out.append(("section-%s:%s" % (k, what), "%s: %s list is %r, the source has %r" % (path, LABEL[k], got[k], want[k])))
    if got["extends"] != want["extends"]:
        out.append(("extends", "%s: extends clauses %r, the source has %r" % (path, got["extends"], want["extends"])))
    if got["imports"] != want["imports"]:
        out.append(("imports:" + "+".join(sorted(set(want["import_forms"]))), "%s: imports %r, the source has %r" % (path, got["imports"], want["imports"])))
    for n in want["class_order"]:
        if n not in got["classes"]:
            out.append(("nested-class-missing", "%s: nested class %s is not attached (has %r)" % (path, n, sorted(got["classes"]))))
        else:
            compare(want["classes"][n], got["classes"][n], path + "." + n, out)
    for n in got["classes"]:
        if n not in want["classes"]:
            out.append(("nested-class-unexpected", "%s: has a nested class %s it does not declare" % (path, n)))


# ---- aliasing -------------------------------------------------------------------------------------------------


def all_symbols(c, path, out):
    for k, s in c.symbols.items():
        out.append((path + "." + k, s))
    for k, sub in c.classes.items():
        all_symbols(sub, path + "." + k if path else k, out)
    return out


def _mutations():
    def m_prefixes(s):
        s.prefixes.append("__mutated")

    def m_dimensions(s):
        s.dimensions[0] = [ast.Primary(value=97)]
        s.dimensions.append([ast.Primary(value=98)])

    def m_type(s):
        s.type.name = "__Mutated"
        s.type.child.append(ast.ComponentRef(name="__child"))

    def m_modification(s):
        if s.class_modification is None:
            return False
        arg = ast.ClassModificationArgument()
        arg.value = ast.ElementModification(component=ast.ComponentRef(name="__mutated"), modifications=[ast.Primary(value=99)])
        for a in s.class_modification.arguments:
            if isinstance(a.value, ast.ElementModification):
                a.value.modifications.append(ast.Primary(value=96))
        s.class_modification.arguments.append(arg)

    return [("prefixes", m_prefixes), ("dimensions", m_dimensions), ("type", m_type), ("class_modification", m_modification)]


def alias_check(tree, out):
    """Mutate each symbol's mutable fields in place, in turn; every other symbol must be unchanged."""
    syms = all_symbols(tree, "", [])
    snap = [obs_symbol(s) for _, s in syms]
    nmut = 0
    for i, (pi, s) in enumerate(syms):
        for field, mut in _mutations():
            if mut(s) is False:
                continue
            nmut += 1
            now = obs_symbol(s)
            if now == snap[i]:
                raise AssertionError("harness: mutation of %s of %s is not observable" % (field, pi))
            snap[i] = now
            for j, (pj, t) in enumerate(syms):
                if j == i:
                    continue
                cur = obs_symbol(t)
                if cur != snap[j]:
                    diff = [f for f in cur if cur[f] != snap[j][f]]
                    same_clause = "other" if pi.rsplit(".", 1)[0] != pj.rsplit(".", 1)[0] else "same-class"
                    out.append(("aliasing:%s:%s" % (field, same_clause), "changing %s of %s in place also changes %s of %s" % (field, pi, diff, pj)))
                    snap[j] = cur
    return nmut


# ---- one case ---------------------------------------------------------------------------------------------------


def judge(classes, within=()):
    """classes: list of top-level class models.  Returns (text, violations [(sig, msg)], stats)."""
    text = p_file(classes, within)
    dup = any(has_duplicate(c) for c in classes)
    stats = {"dup": dup, "mutations": 0}
    viol = []
    try:
        tree = parser.parse(text, bypass_cache=True)
        err = None
    except Exception as e:  # noqa: BLE001 - rejection by exception is a legal outcome for duplicates
        tree, err = None, e
    if dup:
        if tree is not None:
            viol.append(("duplicate-accepted", "a component is declared twice in one class but the text is accepted"))
        return text, viol, stats
    if tree is None:
        why = common.exc_sig(err) if err is not None else "syntax-error"
        viol.append(("valid-text-rejected:" + why, "the text is rejected (%s)" % (repr(err) if err is not None else "parse returned None")))
        return text, viol, stats
    want = {c["name"]: ref_class(c) for c in classes}
    holder, hpath = tree, ""
    for level in (None,) + tuple(within):  # the root, then the packages named by `within`: they hold classes only
        if level is not None:
            if list(holder.classes) != [level]:
                viol.append(("within-package", "%s holds classes %r, the source says `within %s`" % (hpath or "the root", list(holder.classes), ".".join(within))))
                return text, viol, stats
            holder, hpath = holder.classes[level], hpath + level + "."
        for stray in ("symbols", "equations", "initial_equations", "statements", "initial_statements", "extends", "imports"):
            if len(getattr(holder, stray)):
                viol.append(("leaked-to-enclosing:" + stray, "%s has %s %r" % (hpath or "the root of the tree", stray, getattr(holder, stray))))
    if list(holder.classes) != [c["name"] for c in classes]:
        viol.append(("top-level-classes", "%sclasses are %r, the source declares %r" % (hpath, list(holder.classes), [c["name"] for c in classes])))
    for n, w in want.items():
        if n in holder.classes:
            compare(w, obs_class(holder.classes[n]), hpath + n, viol)
    stats["mutations"] = alias_check(tree, viol)
    return text, viol, stats


def nontrivial(classes):
    """Which naive readings would get this text wrong (-> the case can tell a faithful parse from a sloppy one)."""
    tags = set()
    if any(has_duplicate(c) for c in classes):
        return {"duplicate"}

    def walk(c):
        r = ref_class(c)
        if len({s["vis"] for s in r["symbols"]}) > 1:
            tags.add("mixed-visibility")
        if sum(1 for k in BEHAV if r[k]) > 1:
            tags.add("several-behaviour-lists")
        if sum(1 for s in c["sections"] if s["kind"] in BEHAV) > sum(1 for k in BEHAV if r[k]):
            tags.add("split-behaviour-section")
        for s in c["sections"]:
            if s["kind"] not in ELEM:
                continue
            for el in s["items"]:
                if el[0] == "clause":
                    c1 = el[1]
                    if len(c1["decls"]) > 1:
                        tags.add("multi-declarator")
                        if len({(d["dims"], repr(d["mods"]), repr(d["value"]), d["comment"]) for d in c1["decls"]}) > 1:
                            tags.add("declarators-differ")
                    if c1["cdims"] and any(d["dims"] for d in c1["decls"]):
                        tags.add("clause-and-own-subscripts")
                elif el[0] == "class":
                    tags.add("nested-class")
                    walk(el[1])
        if r["extends"] or r["imports"]["named"] or r["imports"]["wild"]:
            tags.add("extends-or-imports")

    for c in classes:
        walk(c)
    if len(classes) > 1:
        tags.add("sibling-class")
    return tags


# ---- family A: feature vectors ------------------------------------------------------------------------------------

LAYOUTS = [
    (False, ("pub", "pro", "eq")),  # base
    (False, ("pro", "pub", "eq")),
    (False, ("pub", "pro", "pub", "eq")),
    (False, ("pro", "pub", "pro", "eq")),
    (False, ("pub", "pub", "eq")),
    (False, ("pub", "eq", "pro")),
    (False, ("eq", "pub", "pro")),
    (True, ("pub", "pro", "eq")),
    (False, ("pub", "pro")),
    (False, ("pub", "pro", "pub0", "eq")),
    (False, ("pub", "pro", "eq", "pro0")),
    (False, ("pub", "pro", "ieq", "eq", "alg", "ialg")),
    (False, ("pub", "pro", "eq", "ieq", "eq")),
    (False, ("pub", "pro", "alg", "eq", "ialg", "alg")),
]

FEATURES = [
    ("kind", ["model", "class", "block", "connector", "record", "function"]),
    ("fs", ["", "flow", "stream"]),
    ("var", ["", "discrete", "parameter", "constant"]),
    ("io", ["", "input", "output"]),
    ("typ", ["Real", "Integer", "Boolean", "N", "P.Q"]),
    ("cdims", [(), (3,), (2, 3), ("n",), (":",)]),
    ("ndecl", [2, 1, 3]),
    ("dims1", [(), (2,), (4, 5), ("n",)]),
    ("dims2", [(), (2,), (4, 5), ("n",)]),
    ("dims3", [(), (2,), (4, 5), ("n",)]),
    ("val1", ["", "lit", "expr", "array", "colon-equals"]),
    ("val2", ["", "lit", "expr", "array", "colon-equals"]),
    ("val3", ["", "lit", "expr", "array", "colon-equals"]),
    ("mod1", ["", "one", "two", "each", "deep", "dotted"]),
    ("mod2", ["", "one", "two", "each", "deep", "dotted"]),
    ("mod3", ["", "one", "two", "each", "deep", "dotted"]),
    ("cmt1", ["", "c", "cat"]),
    ("cmt2", ["", "c", "cat"]),
    ("cmt3", ["", "c", "cat"]),
    ("layout", list(range(len(LAYOUTS)))),
    ("mainsec", [0, 1, 2]),
    ("extra", ["", "before", "after", "both"]),
    ("nested", ["", "plain", "same-names", "deep", "connector", "function", "short"]),
    ("nestpos", ["before", "after", "other"]),
    ("extends", ["", "plain", "mod", "nestedmod", "shadow", "two", "redeclare"]),
    ("extpos", ["before", "after", "other"]),
    ("imports", ["", "qualified", "renamed", "list", "list3", "wildcard", "two-wildcards", "all"]),
    ("dup", ["", "same-clause", "next-clause", "earlier-clause", "other-section"]),
    ("sibling", ["", "before", "after"]),
    ("eqs", ["simple", "comment", "if", "for", "connect"]),
    ("annot", ["", "declarator", "class", "both"]),
    ("within", [(), ("P",), ("P", "Q")]),
]
BASE = {k: d[0] for k, d in FEATURES}


def value_for(typ, how, i):
    if not how:
        return None
    if how == "colon-equals":
        how = "lit"
    if how == "array":
        if typ == "Boolean":
            return ("arr", (("bool", True), ("bool", False)))
        if typ == "Integer":
            return ("arr", (Nn(3 + i), Nn(4), Nn(5)))
        if typ == "Real":
            return ("arr", (Nn("1.5"), Nn(str(i) + ".25")))
        return ("arr", (("var", "nv"), ("var", "nv")))
    if typ == "Real":
        return Nn("%d.5" % (i + 1)) if how == "lit" else ("bin", "+", ("bin", "*", Nn(2), Nn(3 + i)), Nn("0.5"))
    if typ == "Integer":
        return Nn(5 + i) if how == "lit" else ("bin", "-", ("bin", "*", Nn(2), ("var", "n")), Nn(i))
    if typ == "Boolean":
        return ("bool", i % 2 == 0) if how == "lit" else ("un", "not", ("bool", i % 2 == 0))
    return ("var", "nv") if how == "lit" else ("bin", "*", Nn(2 + i), ("var", "nv"))


def mods_for(typ, how, i):
    if not how:
        return []
    if typ in ("Real", "Integer", "Boolean"):
        if typ == "Boolean":
            s, lo = ("bool", i % 2 == 1), mk_mod(("fixed",), ("bool", True))
        elif typ == "Integer":
            s, lo = Nn(2 + i), mk_mod(("min",), ("un", "-", Nn(1 + i)))
        else:
            s, lo = Nn("2.%d" % i), mk_mod(("min",), ("un", "-", Nn("1.5")))
        if how in ("one", "dotted"):
            return [mk_mod(("start",), s)]
        if how == "two":
            return [mk_mod(("start",), s), lo]
        if how == "each":
            return [mk_mod(("start",), s, each=True)]
        # deep: expression values
        e = ("un", "not", ("bool", False)) if typ == "Boolean" else ("bin", "*", Nn(2 + i), ("var", "n"))
        return [lo, mk_mod(("start",), e), mk_mod(("nominal",) if typ == "Real" else ("quantity",), Nn(3) if typ == "Real" else ("str", "q%d" % i))]
    if how == "one":
        return [mk_mod(("z",), Nn(4 + i))]
    if how == "two":
        return [mk_mod(("z",), Nn(4 + i)), mk_mod(("w",), sub=[mk_mod(("start",), Nn(5))])]
    if how == "each":
        return [mk_mod(("z",), Nn(4 + i), each=True)]
    if how == "deep":
        return [mk_mod(("z",), Nn(2), sub=[mk_mod(("start",), Nn(4 + i)), mk_mod(("min",), Nn(1))]), mk_mod(("w",), sub=[mk_mod(("v",), sub=[mk_mod(("start",), Nn("0.5"))])])]
    return [mk_mod(("z", "start"), Nn(4 + i)), mk_mod(("w", "v", "start"), Nn("0.5"))]


def nested_for(how):
    z = NAMES[0]
    if how == "plain":
        return ("class", {"kind": "model", "name": "N", "sections": [sec("unl", [mk_clause("Real", [mk_decl("z")])])]})
    if how == "same-names":
        return (
            "class",
            {
                "kind": "model",
                "name": "N",
                "sections": [
                    sec("unl", [mk_clause("Integer", [mk_decl(NAMES[1], dims=(6,)), mk_decl(z, value=Nn(9))], prefixes=["parameter"])]),
                    sec("pro", [mk_clause("Real", [mk_decl("u1")])]),
                    sec("eq", [("eq", z, 201, "")]),
                    sec("ialg", [("assign", z, 202, "")]),
                ],
            },
        )
    if how == "deep":
        inner = ("class", {"kind": "record", "name": "NN", "sections": [sec("unl", [("import", "q", ("A", "B", "C")), mk_clause("Real", [mk_decl(z)])])]})
        return ("class", {"kind": "model", "name": "N", "sections": [sec("unl", [inner, mk_clause("NN", [mk_decl("q", dims=(2,))])]), sec("pub", [("extends", ("B0",), [])])]})
    if how == "connector":
        return ("class", {"kind": "connector", "name": "N", "sections": [sec("unl", [mk_clause("Real", [mk_decl(z)], prefixes=["flow"]), mk_clause("Real", [mk_decl("p")])])]})
    if how == "function":
        return (
            "class",
            {
                "kind": "function",
                "name": "N",
                "sections": [
                    sec("unl", [mk_clause("Real", [mk_decl(z)], prefixes=["input"]), mk_clause("Real", [mk_decl("y")], prefixes=["output"])]),
                    sec("pro", [mk_clause("Real", [mk_decl("t", value=Nn(1))])]),
                    sec("alg", [("assign", "y", 203, "")]),
                ],
            },
        )
    if how == "short":
        return ("short", "type", "N", ("Real",), [mk_mod(("min",), Nn(0)), mk_mod(("unit",), ("str", "m/s"))])
    raise ValueError(how)


def extends_for(how):
    if how == "plain":
        return [("extends", ("B0",), [])]
    if how == "mod":
        return [("extends", ("B0",), [mk_mod(("k",), Nn(3))])]
    if how == "nestedmod":
        return [("extends", ("P", "B1"), [mk_mod(("k",), sub=[mk_mod(("start",), Nn(3))]), mk_mod(("j",), Nn(2))])]
    if how == "shadow":
        return [("extends", ("B0",), [mk_mod((NAMES[0],), Nn(3)), mk_mod((NAMES[1],), sub=[mk_mod(("start",), Nn(1))])])]
    if how == "two":
        return [("extends", ("B0",), []), ("extends", ("P", "B1"), [mk_mod(("j",), Nn(2))])]
    if how == "redeclare":
        return [("extends", ("B0",), [{"redeclare": ("Real", NAMES[0], Nn(2))}, mk_mod(("k",), Nn(3))])]
    raise ValueError(how)


def imports_for(how):
    q, r = ("import", "q", ("A", "B", "C")), ("import", "r", "D", ("A", "B"))
    lst, w1, w2 = ("import", "l", ("A", "E"), ("X", "Y")), ("import", "w", ("P",)), ("import", "w", ("R", "S"))
    lst3 = ("import", "l", ("A",), ("X", "Y", "Z"))
    return {"": [], "qualified": [q], "renamed": [r], "list": [lst], "list3": [lst3], "wildcard": [w1], "two-wildcards": [w1, w2], "all": [q, r, lst, w1, w2]}[how]


def build_A(fv):
    f = dict(BASE)
    f.update(fv)
    typ = f["typ"]
    decls = []
    for i in range(f["ndecl"]):
        k = str(i + 1)
        cmt = {"": (), "c": ("c %s" % NAMES[i],), "cat": ("c %s, " % NAMES[i], "part 2")}[f["cmt" + k]]
        op = ":=" if f["val" + k] == "colon-equals" and not f["mod" + k] else "="  # the grammar has no `(...) := e`
        ann = f["annot"] in ("declarator", "both") and i == 0
        decls.append(mk_decl(NAMES[i], f["dims" + k], mods_for(typ, f["mod" + k], i), value_for(typ, f["val" + k], i), cmt, op, ann))
    if f["dup"] == "same-clause":
        decls.append(mk_decl(NAMES[0]))
    main = mk_clause(typ, decls, prefixes=[p for p in (f["fs"], f["var"], f["io"]) if p], cdims=f["cdims"])

    unl_empty, seq = LAYOUTS[f["layout"]]
    secs = [sec("unl")] + [sec(k) for k in seq]
    elem = [s for s in secs if s["kind"] in ELEM and not (unl_empty and s["kind"] == "unl")] or [secs[0]]
    msec = elem[min(f["mainsec"], len(elem) - 1)]
    others = [s for s in elem if s is not msec]
    for s in others:
        s["items"].append(mk_clause("Real", [mk_decl("u%d" % secs.index(s))]))
    other = others[-1] if others else None

    before, after, elsewhere = [], [], []

    def place(items, pos):
        if pos == "other" and other is not None:
            elsewhere.extend(items)
        elif pos == "before":
            before.extend(items)
        else:
            after.extend(items)

    if f["extends"]:
        place(extends_for(f["extends"]), f["extpos"])
    if f["nested"]:
        place([nested_for(f["nested"])], f["nestpos"])
    if f["extra"] in ("before", "both"):
        before.append(mk_clause("Integer", [mk_decl("xb")]))
    if f["dup"] == "earlier-clause":
        before.append(mk_clause("Real", [mk_decl(NAMES[f["ndecl"] - 1])]))
    aft = []
    if f["dup"] == "next-clause":
        aft.append(mk_clause("Real", [mk_decl(NAMES[0])]))
    if f["extra"] in ("after", "both"):
        aft.append(mk_clause("Integer", [mk_decl("xa"), mk_decl("xc")]))
    msec["items"] = imports_for(f["imports"]) + before + [main] + aft + after
    if other is not None:
        other["items"] += elsewhere
    if f["dup"] == "other-section":
        tgt = other
        if tgt is None:
            tgt = sec("pro")
            secs.append(tgt)
        tgt["items"].append(mk_clause("Integer", [mk_decl(NAMES[0])]))

    ident = 100
    for s in secs:
        if s["kind"] not in BEHAV:
            continue
        st = s["kind"] in ("alg", "ialg")
        for j in range(2):
            ident += 1
            shape = f["eqs"] if j == 0 else "simple"
            if shape == "connect" and st:
                shape = "simple"
            if shape in ("simple", "comment"):
                s["items"].append(("assign" if st else "eq", NAMES[0], ident, "c%d" % ident if shape == "comment" else ""))
            elif shape == "connect":
                s["items"].append(("connect", NAMES[0], ident))
            else:
                s["items"].append((shape + "s" if st else shape, NAMES[0], ident))
    top = [{"kind": f["kind"], "name": "M", "sections": secs, "annotation": f["annot"] in ("class", "both")}]
    if f["sibling"]:
        sib = {
            "kind": "model",
            "name": "B0",
            "sections": [
                sec("unl", [mk_clause("Real", [mk_decl(NAMES[0], value=Nn(1)), mk_decl("u0")])]),
                sec("pro", [mk_clause("Real", [mk_decl("k")], prefixes=["parameter"])]),
                sec("eq", [("eq", NAMES[0], 301, "")]),
            ],
        }
        top = [sib] + top if f["sibling"] == "before" else top + [sib]
    return top, f["within"]


def vectors(k):
    """Every feature vector within <= k deviations of BASE, as dicts of the deviating features only."""
    out = [{}]
    for r in range(1, k + 1):
        for combo in itertools.combinations(range(len(FEATURES)), r):
            doms = [[(FEATURES[i][0], v) for v in FEATURES[i][1][1:]] for i in combo]
            for pick in itertools.product(*doms):
                out.append(dict(pick))
    return out


# ---- family B: section order x declarator count -----------------------------------------------------------------------

SEQ_KINDS = ("pub", "pro", "eq", "ieq", "alg", "ialg")


def build_B(p):
    """p = {"seq": [...], "counts": [n_unl, n_1, ...]} : n declarators / items per section (0 = empty)."""
    secs = [sec("unl")] + [sec(k) for k in p["seq"]]
    ident = 100
    first = None
    for j, (s, n) in enumerate(zip(secs, p["counts"])):
        if s["kind"] in ELEM:
            if n:
                s["items"].append(mk_clause("Real", [mk_decl("s%d_%d" % (j, i + 1)) for i in range(n)]))
                first = first or "s%d_1" % j
    for j, (s, n) in enumerate(zip(secs, p["counts"])):
        if s["kind"] in BEHAV:
            for _ in range(n):
                ident += 1
                s["items"].append(("assign" if s["kind"] in ("alg", "ialg") else "eq", first or "t", ident, ""))
    return [{"kind": "model", "name": "M", "sections": secs}], ()


def products(L):
    out = []
    for n in range(0, L + 1):
        for seq in itertools.product(SEQ_KINDS, repeat=n):
            for c in (1, 2, 3):
                out.append({"seq": list(seq), "counts": [c] * (n + 1)})
            for j in range(n + 1):
                counts = [1] * (n + 1)
                counts[j] = 0
                out.append({"seq": list(seq), "counts": counts})
    return out


# ---- driver ---------------------------------------------------------------------------------------------------------


def build(job):
    fam, p = job
    return build_A(p) if fam == "A" else build_B(p)


def check_chunk(jobs):
    res = []
    for job in jobs:
        classes, within = build(job)
        text, viol, stats = judge(classes, within)
        res.append({"h": hashlib.sha1(text.encode()).hexdigest()[:20], "text": text if viol else None, "viol": viol, "dup": stats["dup"], "mutations": stats["mutations"], "tags": sorted(nontrivial(classes))})
    return res


def _tuplify(x):
    if isinstance(x, list):
        return tuple(_tuplify(i) for i in x)
    return x


def _job_from_case(case):
    if case["family"] == "A":
        return ("A", {k: _tuplify(v) for k, v in case["params"].items()})
    return ("B", case["params"])


def run(ctx):
    k = 2 if ctx.tier == "quick" else 3
    L = 3 if ctx.tier == "quick" else 4
    jobs = [("A", v) for v in vectors(k)] + [("B", p) for p in products(L)]
    rot = ctx.seed % len(jobs)
    jobs = jobs[rot:] + jobs[:rot]  # the seed only rotates the enumeration order
    size = 50
    chunks = [jobs[i : i + size] for i in range(0, len(jobs), size)]
    with common.Pool() as pool:
        res = [r for chunk in pool.map(check_chunk, chunks) for r in chunk]
    seen = {}
    tags = {}
    fam_n = {"A": 0, "B": 0}
    nontriv = dups = mutations = 0
    for job, r in zip(jobs, res):
        fam_n[job[0]] += 1
        mutations += r["mutations"]
        first = r["h"] not in seen
        if first:
            seen[r["h"]] = job
            if r["tags"]:
                nontriv += 1
            dups += r["dup"]
            for t in r["tags"]:
                tags[t] = tags.get(t, 0) + 1
            for sig, msg in r["viol"]:
                ctx.violation(sig, msg + "\n" + r["text"], {"family": job[0], "params": job[1], "text": r["text"]})
    ordered = sorted(seen)
    for h in (ordered[0], ordered[len(ordered) // 2], ordered[-1]):
        ctx.sample({"family": seen[h][0], "params": seen[h][1], "text": p_file(*build(seen[h]))})
    ctx.coverage.update(
        {
            "evaluations": len(jobs),
            "distinct_texts": len(seen),
            "distinct_nontrivial": nontriv,
            "nontrivial_by_tag": tags,
            "duplicate_declaration_texts": dups,
            "family_A_vectors": fam_n["A"],
            "family_B_products": fam_n["B"],
            "deviation_bound": k,
            "section_sequence_bound": L,
            "features": {name: len(dom) for name, dom in FEATURES},
            "aliasing_mutations": mutations,
            "exhaustive": True,
            "rule": "family A: every vector of the %d features within <= %d deviations of the base class (2 declarators in the "
            "unlabelled list, a public and a protected list, one equation section); family B: every sequence of <= %d sections "
            "out of public/protected/equation/initial equation/algorithm/initial algorithm after the unlabelled list x {1,2,3} "
            "declarators or items per section, plus each section emptied in turn. Texts are deduplicated. A text is non-trivial "
            "when a sloppy reading would get it wrong: symbols of different visibility, several / split behaviour lists, a "
            "multi-declarator clause (shared objects), clause and own subscripts together, nested / sibling classes, extends or "
            "imports, or a duplicate declaration." % (len(FEATURES), k, L),
        }
    )
    ctx.assumptions += [
        "visibility follows pymoca's own convention (unlabelled element list -> Visibility.PRIVATE); dimensions are compared as "
        "the flattened sequence of evaluated subscripts (own subscripts first, then the clause's), not by list nesting",
        "only the shipped generated parser is a subject; redeclare appears only as a component redeclaration inside an extends "
        "modification; element prefixes final/inner/outer, conditional components, concatenated string comments, each/final "
        "flags of modifications, extends visibility and class comments are not compared",
        "aliasing is tested on the objects pymoca itself copies per declarator (prefixes list, outer dimensions list, type, "
        "class_modification); the inner subscript list shared by the declarators of `Real[3] a, b` is not mutated",
    ]


def replay(case):
    job = _job_from_case(case)
    classes, within = build(job)
    text, viol, stats = judge(classes, within)
    print(text)
    for sig, msg in viol:
        print("  --", sig, ":", msg)
    if not viol:
        print("  ok")
    if text != case.get("text", text):
        print("  (note: regenerated text differs from the recorded one)")
    return not viol
