"""C14 -- simplification preserves the DAE's solutions.

E4 x configurations: the triangular-bijective models of vf.checks.simp under option sets within Hamming
distance <= k of the default and of the all-on set.  simplify() raising or logging a warning counts as
"reports failure" (not judged).  Otherwise:

* affine models (decided exactly, with rationals): every recorded elimination (alias pair with its sign,
  algebraic unknown turned into a constant with its value) is a linear consequence of the original rows
  [A|b]; and the projection of the original solution set onto the remaining coordinates has the same row
  space as the simplified rows [A'|b'] read off the real residual function -- solution-set equality;
* all models (also the if-else ones), at the unique solution w* for three (s, u) points: the recorded
  eliminations hold at w*, the simplified residual vanishes at the projection of w*, and its Jacobian with
  respect to the remaining unknowns (derivatives and algebraics) has full column rank there.
"""
from fractions import Fraction

import numpy as np

from vf.checks import simp as S
from vf.core import common
from vf.ref import linalg as L

LEVEL = "exploration"
POINTS = [(Fraction(3, 2), Fraction(5, 2)), (Fraction(-1, 2), Fraction(-3, 2)), (Fraction(7, 10), Fraction(-2))]


def judge(job):
    key, on, eve = job
    spec = S.make_spec(key)
    text = spec.model().text()
    options = S.options_of(set(on), eve)
    case = {"spec": spec.key(), "on": list(on), "eve": eve, "text": text}
    model, err, warns = S.compile_simplified(text, options)
    res = {"outcome": "judged", "viol": [], "elim": 0}
    if err is not None:
        res["outcome"] = "exception:" + common.exc_sig(err)
        return res
    if warns:
        res["outcome"] = "warning"
        return res
    if options["reduce_affine_expression"] and not spec.affine():
        res["outcome"] = "precondition-not-met"
        return res

    def viol(sig, msg):
        res["viol"].append((sig, "%s\noptions on: %s, eliminable_variable_expression=%r\n%s" % (msg, list(on), eve, text), case))

    orig_coords = (["u"] if isinstance(spec, S.PureSpec) else ["s", "der(s)", "u"]) + spec.unknowns()
    try:
        cs = S.coords(model)
        vals, recorded = S.param_values(model)
        rec = S.eval_recorded(model, recorded, vals)
    except Exception as e:  # noqa: BLE001
        viol("unreadable-model:" + type(e).__name__, "cannot read the simplified model: %r" % e)
        return res
    extra = sorted(set(cs) - set(orig_coords))
    if extra:
        viol("new-unknown", "simplified model has unknowns %r that the original does not" % extra)
        return res
    unknown_consts = sorted(set(rec) - set(orig_coords))
    if unknown_consts:
        viol("new-constant", "simplified model has constants %r of unknown origin" % unknown_consts)
        return res
    eliminated = set(orig_coords) - set(cs)
    res["elim"] = len(eliminated)
    allvals = dict(vals)
    allvals.update(rec)
    # recorded eliminations as rows
    recs = []
    for n, v in rec.items():
        recs.append(("constant %s = %g" % (n, v), {n: Fraction(1), 1: -S.frac(v)}, "constant"))
    try:
        for canonical, aliases in model.alias_relation:
            for a in aliases:
                sign = -1 if a.startswith("-") else 1
                name = a[1:] if sign < 0 else a
                row = {name: Fraction(1), canonical: Fraction(-sign)}
                for nm in (name, canonical):  # an alias of a parameter / constant: that one is fixed at its value
                    if nm in S.PVAL:
                        row[1] = row.get(1, 0) + row.pop(nm) * S.PVAL[nm]
                recs.append(("alias %s = %s%s" % (name, "-" if sign < 0 else "", canonical), row, "alias-negative" if sign < 0 else "alias-positive"))
    except Exception as e:  # noqa: BLE001
        viol("alias-relation-unreadable", "iterating alias_relation raises %r" % e)
        return res
    unrecorded = sorted(x for x in eliminated if x not in rec and not any(x in r[1] for r in recs))
    for desc, row, kind in recs:
        if any(c not in orig_coords and c != 1 for c in row):
            viol("recorded-unknown-name:" + kind, "%s names something that is not a variable of the model" % desc)
            return res
    # ---- exact decision for affine models
    if spec.affine():
        orig = spec.rows()
        for desc, row, kind in recs:
            if not S.implied(orig, row):
                viol("recorded-elimination-false:" + kind, "recorded elimination '%s' does not hold in the original solutions" % desc)
        try:
            simp_rows = S.affine_rows(model, allvals)
        except Exception as e:  # noqa: BLE001
            viol("residual-unevaluable:" + type(e).__name__, "simplified residual cannot be evaluated: %r" % e)
            return res
        if simp_rows is None:
            viol("simplified-not-affine", "the original system is affine, the simplified residual is not")
        else:
            proj = S.project(orig, eliminated)
            if not L.same_row_space(proj, simp_rows):
                rp, rs, rb = L.rank(proj), L.rank(simp_rows), L.rank(proj + simp_rows)
                kind = "solutions-lost" if rb > rp else "solutions-added"
                viol(kind, "simplified system over %r (rank %d) is not the projection of the original (rank %d, joint %d); eliminated %r (unrecorded %r)\nsimplified rows %r" % (cs, rs, rp, rb, sorted(eliminated), unrecorded, simp_rows))
        # the initial system (DAE + initial equations) must be preserved in the same sense
        init_rows = spec.init_rows()
        if init_rows and simp_rows is not None:
            try:
                simp_init = S.affine_rows(model, allvals, initial=True)
            except Exception as e:  # noqa: BLE001
                viol("initial-residual-unevaluable:" + type(e).__name__, "simplified initial residual cannot be evaluated: %r" % e)
                return res
            if simp_init is None:
                viol("simplified-initial-not-affine", "the initial equations are affine, the simplified initial residual is not")
            else:
                proj = S.project(orig + init_rows, eliminated)
                if not L.same_row_space(proj, simp_rows + simp_init):
                    viol("initial-system-changed", "DAE + initial equations over %r are not the projection of the original initial system; simplified initial rows %r" % (cs, simp_init))
    # ---- pointwise at the unique solution (regular systems only)
    for s0, u0 in POINTS if spec.regular() else ():
        w = spec.solution(s0, u0)
        for desc, row, kind in recs:
            val = sum(c * (w[v] if v != 1 else 1) for v, c in row.items())
            if val != 0:
                viol("recorded-elimination-false-at-solution:" + kind, "recorded elimination '%s' fails at the solution for s=%s, u=%s" % (desc, s0, u0))
        pt = {c: float(w[c]) for c in cs}
        try:
            r = S.residual_at(model, pt, allvals)
        except Exception as e:  # noqa: BLE001
            viol("residual-unevaluable:" + type(e).__name__, "simplified residual cannot be evaluated: %r" % e)
            return res
        if r.size and not np.allclose(r, 0, atol=1e-8):
            viol("solution-lost", "the original solution for s=%s, u=%s does not satisfy the simplified equations: residual %r" % (s0, u0, r.tolist()))
        unknowns = [c for c in cs if c.startswith("der(") or c.startswith("a")]
        if unknowns:
            h = 1e-4
            J = []
            for c in unknowns:
                p2 = dict(pt)
                p2[c] += h
                J.append((S.residual_at(model, p2, allvals) - r) / h)
            J = np.array(J).T if r.size else np.zeros((0, len(unknowns)))
            if np.linalg.matrix_rank(J, tol=1e-6) < len(unknowns):
                viol("solutions-added", "the simplified equations do not determine %r at the solution for s=%s, u=%s (Jacobian rank %d)" % (unknowns, s0, u0, np.linalg.matrix_rank(J, tol=1e-6)))
    return res


def plan(tier, anchored=True):
    table = S.option_set_table()
    pl = S.plan(tier) + ([(sp, "core") for sp in S.anchored_specs(tier)] if anchored else [])
    jobs = []
    for sp, name in pl:
        for on, eve in table[name]:
            jobs.append((sp.key(), on, eve))
    return [sp for sp, _ in pl], jobs


def _isolated(judge_fn, job):
    """Run one job in a forked child; a child killed by a signal (casadi stack overflow on a runaway
    substitution, say) is an outcome of the job, not of the harness."""
    import multiprocessing as mp

    ctx = mp.get_context("fork")
    rd, wr = ctx.Pipe(duplex=False)

    def child():
        try:
            wr.send(judge_fn(job))
        finally:
            wr.close()

    p = ctx.Process(target=child)
    p.start()
    wr.close()
    out = None
    try:
        if rd.poll(600):
            out = rd.recv()
    except EOFError:
        out = None
    p.join(5)
    if p.is_alive():
        p.kill()
        p.join()
    if out is None:
        key, on, eve = job
        spec = S.make_spec(key)
        text = spec.model().text()
        case = {"spec": spec.key(), "on": list(on), "eve": eve, "text": text}
        why = "signal %d" % -p.exitcode if (p.exitcode or 0) < 0 else "no result (exit code %r)" % p.exitcode
        return {"outcome": "crash", "elim": 0, "viol": [("process-crash:" + ("eve" if eve else "no-eve"), "generate + simplify kills the interpreter (%s) instead of returning or raising\noptions on: %s, eliminable_variable_expression=%r\n%s" % (why, list(on), eve, text), case)]}
    return out


def robust_map(judge_fn, jobs, chunk=512):
    """pool.map that survives a worker dying: the chunk it died in is re-run job by job in forked children."""
    from concurrent.futures.process import BrokenProcessPool

    try:
        with common.Pool() as pool:
            return pool.map(judge_fn, jobs, chunksize=64)
    except BrokenProcessPool:
        pass
    res = [None] * len(jobs)
    for lo in range(0, len(jobs), chunk):
        part = jobs[lo : lo + chunk]
        try:
            with common.Pool() as pool:
                out = pool.map(judge_fn, part, chunksize=16)
        except BrokenProcessPool:
            out = [_isolated(judge_fn, j) for j in part]
        res[lo : lo + chunk] = out
    return res


def run_with(ctx, judge_fn, rule_tail, anchored=True, extra_jobs=()):
    specs, jobs = plan(ctx.tier, anchored)
    jobs = list(jobs) + list(extra_jobs)
    if ctx.seed:
        r = ctx.seed % len(jobs)
        jobs = jobs[r:] + jobs[:r]
    res = robust_map(judge_fn, jobs)
    outcomes, nontrivial = {}, 0
    for j, r in zip(jobs, res):
        o = r["outcome"].split(":")[0]
        outcomes[o] = outcomes.get(o, 0) + 1
        if r["outcome"] == "judged" and r.get("elim", 0) > 0:
            nontrivial += 1
        for sig, msg, case in r["viol"]:
            ctx.violation(sig, msg, case)
    for k in (0, len(jobs) // 2, len(jobs) - 1):
        sp = S.make_spec(jobs[k][0])
        ctx.sample({"model": sp.model().text(), "switches_on": jobs[k][1], "eliminable_variable_expression": jobs[k][2]})
    ctx.coverage.update(
        {
            "evaluations": len(jobs),
            "distinct_nontrivial": nontrivial,
            "models": len(specs),
            "option_sets": {k: len(v) for k, v in S.option_set_table().items()},
            "outcomes": outcomes,
            "exhaustive": True,
            "rule": "models: one state, one input, n = 3 (thorough 4) algebraic unknowns, each defined from an earlier quantity by one of "
            "%d forms. (A) <= 1 special form: every position x form x 4 dependency patterns x 2 state equations; every permutation of "
            "the equation list for the chain pattern (thorough: chain and star), source and reversed order otherwise. (B) 2 special "
            "forms: every pair of positions x every pair of forms, chain dependencies in source order (thorough: chain and star, all "
            "rotations and the reversed order). (C) every full-length chain over 6 core alias / constant / factor forms in source and "
            "reversed order (thorough: rotations too). Option sets: 'near' = every set of the 13 simplification switches and "
            "eliminable_variable_expression within Hamming distance 1 of the default and of all-on, on (A) in source order (quick: chain dependencies only), on (B) for "
            "pairs of 6 core forms, (thorough) on (C) in source order; 'wide' = distance 2, thorough only, on (B) core pairs in source / "
            "reversed order. (D) non-triangular systems: der(s) = 2 * a1 + u plus every non-singular set of k equations from a pool of alias / "
            "shift / constant forms over the ordered pairs of k = 2 (thorough: 3 with all forms; quick: 3 with the two plain alias forms) "
            "unknowns -- alias cycles with inconsistent signs, mutually defined unknowns -- in source and reversed order. (E) models of (A) "
            "in source order with an initial equation (s = 2 * p; a_n = 7 * s + u): DAE + initial equations are compared as one system. "
            "(G) purely algebraic models: 1-3 unknowns tied to the input by a chain of signed alias equations, with an initial equation over the "
            "last one (alias detection empties the equation list). (F, C14 only) systems that need not be square: every set of 2..3 plain alias equations tying two unknowns to the state, the "
            "input or each other with either sign (redundant, contradictory, over-determining), exact comparison only. "
            "'core' = 10 named sets (default, each eliminating pass alone, all-on and its neighbours) on everything else, except that in the quick tier the non-source, non-reversed orders of (A) and the non-core pairs of (B) use 'perm' = the 5 of them that eliminate (detect_aliases, eliminate_constant_assignments, eliminable a.*, all-on with a.*, all-on without reduce_affine). " % len(S.FORMS) + rule_tail,
        }
    )


def run(ctx):
    run_with(
        ctx,
        judge,
        "Non-trivial = simplify() reported no failure and eliminated at least one unknown.",
    )
    ctx.assumptions.append("an exception or a logged warning (also 'System is not balanced') counts as simplify() reporting failure")
    ctx.assumptions.append("reduce_affine_expression is only judged on affine models; all constant factors in the alphabet are finite and non-zero")


def replay(case):
    r = judge((case["spec"], tuple(case["on"]), case["eve"]))
    print(case["text"])
    print(r["outcome"], [m.split("\n")[0] for _, m, _ in r["viol"]] or "ok")
    return not r["viol"]
