"""C19 -- cached (pickled functions) and code-generated (shared libraries) models equal fresh compiles.

E4 over programs x configurations: model families x option sets within distance 1 of {cache} (quick) and of
{codegen} (thorough).  First transfer_model -> fresh Model, second -> CachedModel; both are reduced to a
canonical comparable form (vf.core.mcache.canon) and compared.
"""
import os
import shutil

from vf.core import common, mcache

LEVEL = "exploration"

MODELS = {
    "ParamAttrs": """model ParamAttrs
  parameter Real p = 2;
  parameter Real q = 3;
  Real x(start = 2*p+1, min = -p, max = p*q, nominal = 2);
  Real y(max = sin(p));
  input Real u(fixed = true);
  parameter Real k(min = 0) = p/2;
  constant Real c = 4;
  output Real z;
equation
  der(x) = -k*x + u;
  y = c*x;
  z = y + q;
end ParamAttrs;
""",
    "Aliases": """model Aliases
  Real x(start = 1, min = -5);
  Real a(max = 7);
  Real b(nominal = 3);
  Real nb(min = -2, start = 4);
  output Real o;
  parameter Real w = 2;
equation
  der(x) = -w*x;
  a = x;
  b = a;
  nb = -b;
  o = nb + 1;
end Aliases;
""",
    "Delay": """model Delay
  parameter Real d = 0.5;
  Real x(start = 1);
  Real y;
  input Real u;
equation
  der(x) = u - y;
  y = delay(2*x + d, 2*d);
end Delay;
""",
    "DelayLoop": """model DelayLoop
  parameter Real d = 0.5;
  Real x[3];
  Real z[3];
equation
  for i in 1:3 loop
    z[i] = delay(x[i], d);
  end for;
  der(x) = z;
end DelayLoop;
""",
    "TwoDelays": """model TwoDelays
  parameter Real d = 0.5;
  Real x(start = 1);
  Real y;
  Real z;
  Real w;
equation
  der(x) = -x;
  y = delay(x, 0.25);
  z = delay(2 * x, 1.5);
  w = delay(x + 1, d);
end TwoDelays;
""",
    "Strings": """model Strings
  parameter String s = "abc";
  constant String cs = "k";
  parameter Integer n = 3;
  parameter Boolean flag = true;
  Integer i(start = 2);
  Boolean b(start = true, fixed = true);
  Real x;
equation
  i = n;
  b = flag;
  x = n * 2.5;
end Strings;
""",
    "Arrays": """model Arrays
  parameter Real p = 2;
  Real v[3](start = {1, 2, 3}, each min = p);
  Real A[2,2](each nominal = 3);
  output Real s;
equation
  der(v) = -p * v;
  A = ones(2, 2) * p;
  s = sum(v);
end Arrays;
""",
    "Affine": """model Affine
  parameter Real p = 2;
  constant Real c = 3;
  Real x(start = 1);
  Real y;
  input Real u;
equation
  der(x) = -2*x + 3*y + u;
  y = 4*x + c;
end Affine;
""",
}

SWITCHES = [
    "expand_vectors", "detect_aliases", "replace_constant_values", "replace_parameter_expressions",
    "replace_constant_expressions", "eliminate_constant_assignments", "replace_parameter_values",
    "resolve_parameter_values", "factor_and_simplify_equations", "reduce_affine_expression",
]  # fmt: skip
OTHER = [("unroll_loops", False), ("inline_functions", False), ("check_balanced", False), ("allow_derivative_aliases", False), ("mtime_check", False)]


def option_sets(base, model):
    sets = [dict(base)]
    for s in SWITCHES:
        if s == "reduce_affine_expression" and model != "Affine":
            continue  # precondition: affine model
        sets.append(dict(base, **{s: True}))
    for o, v in OTHER:
        sets.append(dict(base, **{o: v}))
    if model == "Aliases":
        sets.append(dict(base, eliminable_variable_expression="a|nb"))
        sets.append(dict(base, detect_aliases=True, expand_vectors=True))
    if model == "DelayLoop":
        sets.append(dict(base, detect_aliases=True, expand_vectors=True))
    return sets


def cases(tier):
    out = []
    for name in MODELS:
        for o in option_sets({"cache": True}, name):
            out.append((name, o))
    if tier == "thorough":
        for name in MODELS:
            for o in option_sets({"codegen": True}, name)[:6]:
                out.append((name, o))
    return out


def check(job):
    from pymoca.backends.casadi import api

    name, opts = job
    folder = common.new_scratch("c19")
    mcache.write_files(folder, {name + ".mo": MODELS[name]})
    case = {"model": name, "options": opts}
    tag = "%s:%s" % (name, "+".join("%s=%s" % kv for kv in sorted(opts.items())))
    cwd = os.getcwd()
    try:
        os.chdir(folder)  # codegen writes relative paths
        try:
            m1 = api.transfer_model(folder, name, dict(opts))
        except Exception as e:
            return {"viol": [], "skipped": "first compile raises %s" % type(e).__name__, "tag": tag}
        try:
            m2 = api.transfer_model(folder, name, dict(opts))
        except Exception as e:
            return {"viol": [("load-raises:%s:%s" % (tag, common.exc_sig(e)), "second transfer_model raises %r" % e, case)], "tag": tag}
        if not isinstance(m2, api.CachedModel):
            return {"viol": [("cache-not-used:" + tag, "second transfer_model recompiled instead of loading the cache it just wrote", case)], "tag": tag}
        try:
            c1 = mcache.canon(m1)
        except Exception as e:
            return {"viol": [], "skipped": "fresh model cannot be evaluated: %r" % e, "tag": tag}
        try:
            c2 = mcache.canon(m2)
        except Exception as e:
            return {"viol": [("cached-model-unusable:%s:%s" % (tag, type(e).__name__), "cached model cannot be evaluated: %r" % e, case)], "tag": tag}
        d = mcache.diff(c1, c2)
        viol = [("cached-differs:%s:%s" % (tag, what), "%s, %s: %s" % (name, opts, detail[:600]), case) for what, detail in d[:5]]
        return {"viol": viol, "tag": tag, "nvars": sum(len(v) for v in c1["variables"].values())}
    finally:
        os.chdir(cwd)
        shutil.rmtree(folder, ignore_errors=True)


def run(ctx):
    cs = cases(ctx.tier)
    with common.Pool() as pool:
        res = pool.map(check, cs, chunksize=1)
    skipped = []
    done = 0
    for (name, o), r in zip(cs, res):
        if r.get("skipped"):
            skipped.append("%s: %s" % (r["tag"], r["skipped"]))
            continue
        done += 1
        for sig, msg, case in r["viol"]:
            ctx.violation(sig, msg, case)
    for k in (0, len(cs) // 2, len(cs) - 1):
        ctx.sample({"model": cs[k][0], "options": cs[k][1]})
    ctx.coverage.update(
        {
            "evaluations": done,
            "distinct_nontrivial": done,
            "cases": len(cs),
            "skipped_because_fresh_compile_fails": skipped,
            "models": sorted(MODELS),
            "exhaustive": True,
            "rule": "7 model families (parameter-dependent attributes, alias chains incl. negative, delay, delay in a loop, String/"
            "Integer/Boolean, arrays, affine) x every option set within distance 1 of {cache} (10 simplification switches, 5 "
            "other options, eliminable_variable_expression, two 2-option sets); thorough adds {codegen} x 6 sets per model. "
            "Fresh Model vs CachedModel: names, order, shapes, Python types, every attribute at 2 parameter points, outputs, "
            "delay states, alias relation, and the four functions at 2 points. A case counts when the cache was actually loaded.",
        }
    )


def replay(case):
    r = check((case["model"], case["options"]))
    print(r)
    return not r["viol"]
