"""C19 -- cached (pickled functions) and code-generated (shared libraries) models equal fresh compiles.

E4 over programs x configurations x (short) folder histories.

* pair cases: model families x option sets within distance 1 of {cache} (quick) and of {codegen} (thorough).
  First transfer_model -> fresh Model, second -> CachedModel.  Every family exists "bare" (as written) and
  "full" (a ballast block adds one more member to EVERY variable category: state, algebraic, fixed and free
  input, 2 constants, 3 parameters, String parameter and constant, all with parameter-dependent attributes),
  so an index / order mix-up between two categories always meets two non-empty categories of different sizes.
* delay-duration cases: every sequence (length 1, 2; 3 in thorough) over the 8 duration kinds = subsets of
  {constant, parameter, fixed input} the duration depends on (the second member of each category is used).
* history cases: compile, ONE change (option / library_folders source / model-folder source), transfer_model
  (recompiles and saves again into the folder that still holds the artefacts of the first compile),
  transfer_model (loads).  Every call's result is compared with a compile of the current sources and options
  in a separate clean folder.  {cache} histories for 3 models and {codegen} histories for 1 model in quick;
  thorough: all 3 models in both modes and all sequences of <= 2 changes.

Everything is reduced to a canonical comparable form (vf.core.mcache.canon) and compared.
"""
import itertools
import os
import shutil

from vf.core import common, mcache

LEVEL = "exploration"

MODELS = {
    "ParamAttrs": """model ParamAttrs
  parameter Real p = 2;
  parameter Real q = 3;
  Real x(start = 2*p+1, min = -p, max = p*q, nominal = 2);
  Real y(max = sin(p));
  input Real u(fixed = true);
  parameter Real k(min = 0) = p/2;
  constant Real c = 4;
  output Real z;
equation
  der(x) = -k*x + u;
  y = c*x;
  z = y + q;
end ParamAttrs;
""",
    "Aliases": """model Aliases
  Real x(start = 1, min = -5);
  Real a(max = 7);
  Real b(nominal = 3);
  Real nb(min = -2, start = 4);
  output Real o;
  parameter Real w = 2;
equation
  der(x) = -w*x;
  a = x;
  b = a;
  nb = -b;
  o = nb + 1;
end Aliases;
""",
    "Delay": """model Delay
  parameter Real d = 0.5;
  Real x(start = 1);
  Real y;
  input Real u;
equation
  der(x) = u - y;
  y = delay(2*x + d, 2*d);
end Delay;
""",
    "DelayLoop": """model DelayLoop
  parameter Real d = 0.5;
  Real x[3];
  Real z[3];
equation
  for i in 1:3 loop
    z[i] = delay(x[i], d);
  end for;
  der(x) = z;
end DelayLoop;
""",
    "TwoDelays": """model TwoDelays
  parameter Real d = 0.5;
  Real x(start = 1);
  Real y;
  Real z;
  Real w;
equation
  der(x) = -x;
  y = delay(x, 0.25);
  z = delay(2 * x, 1.5);
  w = delay(x + 1, d);
end TwoDelays;
""",
    "Strings": """model Strings
  parameter String s = "abc";
  constant String cs = "k";
  parameter Integer n = 3;
  parameter Boolean flag = true;
  Integer i(start = 2);
  Boolean b(start = true, fixed = true);
  Real x;
equation
  i = n;
  b = flag;
  x = n * 2.5;
end Strings;
""",
    "Arrays": """model Arrays
  parameter Real p = 2;
  Real v[3](start = {1, 2, 3}, each min = p);
  Real A[2,2](each nominal = 3);
  output Real s;
equation
  der(v) = -p * v;
  A = ones(2, 2) * p;
  s = sum(v);
end Arrays;
""",
    "Affine": """model Affine
  parameter Real p = 2;
  constant Real c = 3;
  Real x(start = 1);
  Real y;
  input Real u;
equation
  der(x) = -2*x + 3*y + u;
  y = 4*x + c;
end Affine;
""",
    # an array-valued member FIRST in every category (the metadata function has a row per element, the variable
    # lists an entry per variable), then scalars with parameter-dependent attributes (more of them in +full)
    "ArraysAll": """model ArraysAll
  parameter Real pv[2] = {1, 2};
  parameter Real p(max = 5) = 2;
  parameter Real r(min = -p) = 1;
  constant Real cv[2] = {3, 4};
  input Real uv[2](each max = p);
  input Real uf(fixed = true, min = -p);
  Real v[2](start = {1, 2}, each min = p);
  Real x(start = p, max = 3*p);
  Real w[2];
  Real a(min = -p);
equation
  der(v) = -p * v + uv;
  der(x) = -r*x + uf;
  w = cv + pv;
  a = x + sum(w);
end ArraysAll;
""",
    # the other extreme: every category but the states empty (no parameter, constant, input at all)
    "Minimal": """model Minimal
  Real x(start = 1);
  Real y;
equation
  der(x) = -x;
  y = delay(x, 1.5);
end Minimal;
""",
}

# One more member for every variable category, each with attributes that depend on parameters.  Affine in the
# states (so that reduce_affine_expression stays applicable to Affine+full).
BALLAST_DECL = """  parameter Real zp1(min = 0) = 1.5;
  parameter Real zp2(max = 10*zp1) = 2*zp1;
  parameter Real zp3 = 0.5;
  constant Real zc1 = 0.25;
  constant Real zc2(min = 0) = 3;
  input Real zu1(fixed = true, min = -zp1);
  input Real zu2(max = zp1 + zp2);
  Real zx(start = zp1, max = 4*zp2, nominal = 2);
  Real za(min = -zp2);
  parameter String zs = "ballast";
  constant String zcs = "zk";
"""
BALLAST_EQ = """  der(zx) = -zc1*zx + zu2;
  za = zp1*zx + zu1 + zc2 + zp3;
"""
FULL = [m for m in MODELS if m != "Minimal"]

# Delay durations: which categories the duration depends on (always the SECOND member of the category, so an
# index that is off by a whole category or by one inside it lands on another symbol).
DUR = {
    "0": "0.75",
    "C": "2*e",
    "P": "q",
    "U": "uf",
    "CP": "e*q",
    "CU": "e + uf",
    "PU": "q*uf",
    "CPU": "e*q + uf",
}
DEXPR = ["2*x + p", "x + c*u + r", "x*time + e"]


def dd_text(kinds):
    n = len(kinds)
    decl = "".join("  Real y%d;\n" % i for i in range(n))
    eqs = "".join("  y%d = delay(%s, %s);\n" % (i, DEXPR[i], DUR[k]) for i, k in enumerate(kinds))
    return (
        "model DD\n  parameter Real p = 0.5;\n  parameter Real q(min = 0) = 1.5;\n  parameter Real r = 2.5;\n  constant Real c = 0.25;\n"
        "  constant Real e = 2;\n  input Real u;\n  input Real uf(fixed = true, min = 0);\n  Real x(start = p);\n"
        + decl
        + '  parameter String s = "abc";\n  constant String cs = "k";\nequation\n  der(x) = u - '
        + " - ".join("y%d" % i for i in range(n))
        + ";\n"
        + eqs
        + "end DD;\n"
    )


def model_text(key):
    if key.startswith("DD:"):
        return dd_text(key[3:].split(","))
    if key.endswith("+full"):
        t = MODELS[key[:-5]]
        head, rest = t.split("equation\n", 1)
        body, end = rest.rsplit("end ", 1)
        return head + BALLAST_DECL + "equation\n" + body + BALLAST_EQ + "end " + end
    return MODELS[key]


def class_name(key):
    return "DD" if key.startswith("DD:") else key.split("+")[0]


SWITCHES = [
    "expand_vectors", "detect_aliases", "replace_constant_values", "replace_parameter_expressions",
    "replace_constant_expressions", "eliminate_constant_assignments", "replace_parameter_values",
    "resolve_parameter_values", "factor_and_simplify_equations", "reduce_affine_expression",
]  # fmt: skip
OTHER = [("unroll_loops", False), ("inline_functions", False), ("check_balanced", False), ("allow_derivative_aliases", False), ("mtime_check", False)]
AFFINE = ("Affine", "DD")  # precondition of reduce_affine_expression: the model is affine in its states
DD_PAIR_SWITCHES = ["replace_constant_values", "replace_parameter_values"]  # the ones that change what a duration depends on


def option_sets(base, key):
    model = class_name(key)
    sets = [dict(base)]
    for s in SWITCHES:
        if s == "reduce_affine_expression" and model not in AFFINE:
            continue
        sets.append(dict(base, **{s: True}))
    for o, v in OTHER:
        sets.append(dict(base, **{o: v}))
    if model == "Aliases":
        sets.append(dict(base, eliminable_variable_expression="a|nb"))
        sets.append(dict(base, detect_aliases=True, expand_vectors=True))
    if model == "DelayLoop":
        sets.append(dict(base, detect_aliases=True, expand_vectors=True))
    return sets


# ---------------------------------------------------------------------------------------------------------
# histories: one model folder + one library folder, sources in two variants each

HIST = {
    # every category, parameter-dependent attributes, initial equation, one delay in the library class
    "Full": {
        "main": """model Main
  extends LibBase;
  parameter Real p = 2;
  parameter Real q(min = 0) = 3;
  constant Real c = 4;
  constant Real e = 0.5;
  input Real uf(fixed = true);
  input Real u;
  Real x(start = %(start)s, max = p*q);
  Real a;
  parameter String s = "abc";
  constant String cs = "k";
initial equation
  x = %(init)s;
equation
  der(x) = -p*x + c + u%(plus)s;
  a = q*x + uf + y;
end Main;
""",
        "mainv": {"A": {"start": "p", "init": "p", "plus": ""}, "B": {"start": "2*p", "init": "p + 1", "plus": " + 1"}},
        "lib": """model LibBase
  parameter Real k = 1;
  constant Real lc = 2;
  Real y(min = %(min)s);
  Real yd;
equation
  y = %(coef)slc*k;
  yd = delay(%(dexpr)s, %(ddur)s);
end LibBase;
""",
        "libv": {"A": {"min": "-k", "coef": "", "dexpr": "y", "ddur": "lc*k"}, "B": {"min": "-2*k", "coef": "3*", "dexpr": "2*y", "ddur": "lc*k + 1"}},
        "opt": {"replace_parameter_values": True},
    },
    # alias chains through the library class, arrays; the option change alters the variable lists themselves
    "Alias": {
        "main": """model Main
  extends LibBase;
  parameter Real p = 2;
  constant Real c = 3;
  input Real u;
  Real v[2](each min = p);
  Real a(max = 7);
  Real nb(start = %(start)s);
  Real g;
equation
  der(v) = -%(coef)sp * v;
  g = u + c;
  a = y;
  nb = -a;
end Main;
""",
        "mainv": {"A": {"start": "4", "coef": ""}, "B": {"start": "5", "coef": "2*"}},
        "lib": """model LibBase
  parameter Real k = 1;
  Real y(min = %(min)s);
  Real r;
equation
  der(r) = %(coef)sk;
  y = r;
end LibBase;
""",
        "libv": {"A": {"min": "-5", "coef": ""}, "B": {"min": "-6", "coef": "2*"}},
        "opt": {"detect_aliases": True},
    },
    # delays in both folders, durations on a library parameter, a constant and a fixed input
    "Delays": {
        "main": """model Main
  extends LibBase;
  parameter Real p = 2;
  constant Real c = 0.5;
  input Real uf(fixed = true);
  Real x(start = 1);
  Real w;
equation
  der(x) = -p*x + w;
  w = delay(x %(sign)s y, c*k + %(m)suf);
end Main;
""",
        "mainv": {"A": {"sign": "+", "m": ""}, "B": {"sign": "-", "m": "2*"}},
        "lib": """model LibBase
  parameter Real k = 1;
  constant Real lc = 2;
  Real y;
  Real yd;
equation
  y = lc*time;
  yd = delay(%(dexpr)s, %(ddur)s);
end LibBase;
""",
        "libv": {"A": {"dexpr": "y", "ddur": "lc*k"}, "B": {"dexpr": "2*y", "ddur": "lc*k + 1"}},
        "opt": {"replace_constant_values": True},
    },
}
CHANGES = ("opt", "lib", "main")
T0 = 1_700_000_000
QUICK_CODEGEN_HIST = ("Full",)


def _hist_cases(tier):
    out = []
    depth = 2 if tier == "thorough" else 1
    seqs = [s for n in range(1, depth + 1) for s in itertools.product(CHANGES, repeat=n)]
    for mode in ("codegen", "cache"):  # the expensive ones first
        for model in HIST:
            if mode == "codegen" and tier != "thorough" and model not in QUICK_CODEGEN_HIST:
                continue
            for s in seqs:
                out.append(("hist", model, mode, list(s)))
    return out


def cases(tier):
    out = _hist_cases(tier)
    if tier == "thorough":
        for name in list(MODELS) + [m + "+full" for m in FULL] + ["DD:" + k for k in DUR]:
            for o in option_sets({"codegen": True}, name)[:6]:
                out.append((name, o))
    for name in MODELS:
        for o in option_sets({"cache": True}, name):
            out.append((name, o))
    for name in FULL:
        for o in option_sets({"cache": True}, name + "+full"):
            out.append((name + "+full", o))
    for k in DUR:
        for o in option_sets({"cache": True}, "DD:" + k):
            out.append(("DD:" + k, o))
    for k in itertools.product(DUR, repeat=2):
        for o in [{"cache": True}] + [{"cache": True, s: True} for s in DD_PAIR_SWITCHES]:
            out.append(("DD:" + ",".join(k), o))
    if tier == "thorough":
        for k in itertools.product(DUR, repeat=3):
            out.append(("DD:" + ",".join(k), {"cache": True}))
    return out


def check(job):
    if job[0] == "hist":
        return check_history(job)
    from pymoca.backends.casadi import api

    key, opts = job
    name = class_name(key)
    folder = common.new_scratch("c19")
    mcache.write_files(folder, {name + ".mo": model_text(key)})
    case = {"model": key, "options": opts}
    tag = "%s:%s" % (key, "+".join("%s=%s" % kv for kv in sorted(opts.items())))
    cwd = os.getcwd()
    try:
        os.chdir(folder)  # codegen writes relative paths
        try:
            m1 = api.transfer_model(folder, name, dict(opts))
        except Exception as e:
            return {"viol": [], "skipped": "first compile raises %s" % type(e).__name__, "tag": tag}
        try:
            m2 = api.transfer_model(folder, name, dict(opts))
        except Exception as e:
            return {"viol": [("load-raises:%s:%s" % (tag, common.exc_sig(e)), "second transfer_model raises %r" % e, case)], "tag": tag}
        if not isinstance(m2, api.CachedModel):
            return {"viol": [("cache-not-used:" + tag, "second transfer_model recompiled instead of loading the cache it just wrote", case)], "tag": tag}
        try:
            c1 = mcache.canon(m1)
        except Exception as e:
            return {"viol": [], "skipped": "fresh model cannot be evaluated: %r" % e, "tag": tag}
        try:
            c2 = mcache.canon(m2)
        except Exception as e:
            return {"viol": [("cached-model-unusable:%s:%s" % (tag, type(e).__name__), "cached model cannot be evaluated: %r" % e, case)], "tag": tag}
        d = mcache.diff(c1, c2, broadcast_attrs=True)
        viol = [("cached-differs:%s:%s" % (tag, what), "%s, %s: %s\n%s" % (key, opts, detail[:600], model_text(key)), case) for what, detail in d[:5]]
        groups = {g: len(v) for g, v in c1["variables"].items()}
        groups["string_parameters"] = len(c1["string_parameters"])
        groups["string_constants"] = len(c1["string_constants"])
        return {"viol": viol, "tag": tag, "groups": groups, "ndelay": len(c1["delay_states"])}
    finally:
        os.chdir(cwd)
        shutil.rmtree(folder, ignore_errors=True)


def _sources(model, main, lib):
    h = HIST[model]
    return {"Main.mo": h["main"] % h["mainv"][main]}, {"Lib.mo": h["lib"] % h["libv"][lib]}


def _snapshot(folder):
    return {f: (os.stat(os.path.join(folder, f)).st_mtime_ns, os.stat(os.path.join(folder, f)).st_size) for f in os.listdir(folder)}


def check_history(job):
    """compile; then for every change in the sequence: apply it, transfer_model (must recompile), transfer_model
    (must load).  Logical clock: every source edit gets the next tick as mtime, every file a transfer_model call
    wrote gets the next tick after the call (in real time a write happens after all edits so far)."""
    from pymoca.backends.casadi import api

    _, model, mode, seq = job
    tag = "hist:%s:%s:%s" % (model, mode, ">".join(seq))
    case = {"history": {"model": model, "mode": mode, "changes": seq}}
    root = common.new_scratch("c19h")
    mdir, ldir = os.path.join(root, "model"), os.path.join(root, "lib")
    state = {"main": "A", "lib": "A", "opt": False}
    tick = [0]

    def now():
        tick[0] += 1
        return T0 + tick[0]

    def options(lib_folder, caching=True):
        o = dict(HIST[model]["opt"]) if state["opt"] else {}
        o["library_folders"] = [lib_folder]
        if caching:
            o[mode] = True
        elif mode == "cache":
            o["expand_mx"] = True  # caching implies it
        return o

    def fresh():
        d = common.new_scratch("c19f")
        try:
            ms, ls = _sources(model, state["main"], state["lib"])
            mcache.write_files(os.path.join(d, "model"), ms)
            mcache.write_files(os.path.join(d, "lib"), ls)
            return mcache.canon(api.transfer_model(os.path.join(d, "model"), "Main", options(os.path.join(d, "lib"), caching=False)))
        finally:
            shutil.rmtree(d, ignore_errors=True)

    ms, ls = _sources(model, "A", "A")
    mcache.write_files(mdir, ms, mtime=now())
    mcache.write_files(ldir, ls, mtime=now())
    viol, loads, compiles = [], 0, 0
    cwd = os.getcwd()
    try:
        os.chdir(root)
        # (what happens before the call, must the call load the cache)
        steps = [(None, False)]
        for ch in seq:
            steps += [(ch, False), (None, True)]
        for i, (ch, must_load) in enumerate(steps):
            if ch == "opt":
                state["opt"] = not state["opt"]
            elif ch == "lib":
                state["lib"] = "B" if state["lib"] == "A" else "A"
                mcache.write_files(ldir, _sources(model, state["main"], state["lib"])[1], mtime=now())
            elif ch == "main":
                state["main"] = "B" if state["main"] == "A" else "A"
                mcache.write_files(mdir, _sources(model, state["main"], state["lib"])[0], mtime=now())
            where = "call %d (main=%s lib=%s opt=%s)" % (i + 1, state["main"], state["lib"], state["opt"])
            before = _snapshot(mdir)
            try:
                m = api.transfer_model(mdir, "Main", options(ldir))
            except Exception as e:
                if i == 0:
                    return {"viol": [], "skipped": "first compile raises %r" % e, "tag": tag}
                viol.append(("transfer-raises:%s:%s" % (tag, common.exc_sig(e)), "%s raises %r" % (where, e), case))
                break
            after = _snapshot(mdir)
            t = now()
            for f, st in after.items():
                if before.get(f) != st:
                    os.utime(os.path.join(mdir, f), (t, t))
            loaded = isinstance(m, api.CachedModel)
            loads += loaded
            compiles += not loaded
            if must_load and not loaded:
                viol.append(("cache-not-used:" + tag, "%s recompiled instead of loading the cache the previous call wrote" % where, case))
                break
            try:
                exp = fresh()
            except Exception as e:
                return {"viol": [], "skipped": "clean-folder compile raises %r at %s" % (e, where), "tag": tag}
            try:
                got = mcache.canon(m)
            except Exception as e:
                viol.append(("model-unusable:%s:%s" % (tag, type(e).__name__), "%s: returned model cannot be evaluated: %r" % (where, e), case))
                break
            d = mcache.diff(exp, got, broadcast_attrs=True)
            if d:
                kind = "loaded" if loaded else "compiled"
                viol += [
                    ("%s-differs-from-clean-compile:%s:%s" % (kind, tag, what), "%s, %s model differs from a compile of the same sources and options in a clean folder: %s" % (where, kind, detail[:600]), case)
                    for what, detail in d[:3]
                ]
                break
        return {"viol": viol, "tag": tag, "loads": loads, "compiles": compiles, "hist": True}
    finally:
        os.chdir(cwd)
        shutil.rmtree(root, ignore_errors=True)


def run(ctx):
    cs = cases(ctx.tier)
    with common.Pool() as pool:
        res = pool.map(check, cs, chunksize=1)
    skipped = []
    done = 0
    texts = set()
    hist = {"cache": 0, "codegen": 0, "loads_compared": 0, "compiles_compared": 0}
    min_groups = {}
    delays = 0
    for job, r in zip(cs, res):
        if r.get("skipped"):
            skipped.append("%s: %s" % (r["tag"], r["skipped"]))
            continue
        done += 1
        if r.get("hist"):
            hist[job[2]] += 1
            hist["loads_compared"] += r["loads"]
            hist["compiles_compared"] += r["compiles"]
        else:
            texts.add(model_text(job[0]))
            delays += r.get("ndelay", 0) > 0
            if job[0].endswith("+full") or job[0].startswith("DD:"):
                for g, n in r.get("groups", {}).items():
                    if g != "der_states":
                        min_groups[g] = min(n, min_groups.get(g, n))
        for sig, msg, case in r["viol"]:
            ctx.violation(sig, msg, case)
    pairs = [c for c in cs if c[0] != "hist"]
    for k in (0, len(pairs) // 2, len(pairs) - 1):
        ctx.sample({"model": pairs[k][0], "options": pairs[k][1], "text": model_text(pairs[k][0])})
    hs = [c for c in cs if c[0] == "hist"]
    ctx.sample({"history": {"model": hs[0][1], "mode": hs[0][2], "changes": hs[0][3]}})
    ctx.coverage.update(
        {
            "evaluations": done,
            "distinct_nontrivial": done,
            "cases": len(cs),
            "distinct_model_texts": len(texts),
            "cases_with_delays": delays,
            "histories": hist,
            "smallest_category_in_full_and_delay_duration_families": min_groups,
            "skipped_because_fresh_compile_fails": skipped,
            "models": sorted(MODELS),
            "exhaustive": True,
            "rule": "10 model families (parameter-dependent attributes, alias chains incl. negative, delay, delay in a loop, several "
            "delays, String/Integer/Boolean, arrays, an array first in every category, affine, minimal) bare and (all but minimal) "
            "with a ballast block that adds a member with parameter-dependent attributes to every variable category (state, "
            "algebraic, fixed and free input, 2 constants, 3 parameters, String parameter and constant), x every option set within distance 1 of {cache} (10 simplification switches, 5 "
            "other options, eliminable_variable_expression, two 2-option sets); delay-duration family: every sequence of 1 "
            "(x all option sets) or 2 (x {cache}, +replace_constant_values, +replace_parameter_values) delays (3 in thorough, "
            "{cache}) over the 8 duration kinds = subsets of {constant, parameter, fixed input}; thorough adds {codegen} x 6 sets "
            "per model. Fresh Model vs CachedModel: names, order, shapes, Python types, every attribute at 2 parameter points, "
            "outputs, delay states, alias relation, exposed delay arguments and the four functions at 2 points. Histories: 3 "
            "two-folder models x {option change, library source edit, model source edit} ({cache}; {codegen}: 1 model quick, 3 "
            "thorough; thorough: all sequences of <= 2 changes): compile, change, transfer_model, transfer_model; every call's "
            "result vs a compile of the current sources/options in a clean folder. A case counts when the cache was actually loaded.",
        }
    )
    ctx.assumptions += [
        "history cases: every edit has a strictly later mtime than anything written before it (logical clock); files written by a transfer_model call get the next tick",
    ]


def replay(case):
    if "history" in case:
        h = case["history"]
        r = check_history(("hist", h["model"], h["mode"], h["changes"]))
    else:
        r = check((case["model"], case["options"]))
    print(r)
    return not r["viol"]
