"""Helpers around pymoca's CasADi backend: compile a text, evaluate the output functions at named points."""
import numpy as np


def generate(text, cls, options=None):
    from pymoca import parser
    from pymoca.backends.casadi import generator

    tree = parser.parse(text, bypass_cache=True)
    if tree is None:
        raise SyntaxError("pymoca reports a syntax error")
    return generator.generate(tree, cls, options or {})


def flat(value, shape):
    """Column-major flattening (CasADi's vec) of a scalar / nested list for a symbol of the given MX shape."""
    n = shape[0] * shape[1]
    a = np.array(value, dtype=float)
    if a.ndim == 0:
        return [float(a)] * n
    if a.ndim == 1:
        if a.size != n:
            raise ValueError("value %r does not fit shape %r" % (value, shape))
        return [float(x) for x in a]
    if a.size != n:
        raise ValueError("value %r does not fit shape %r" % (value, shape))
    return [float(x) for x in a.flatten(order="F")]


GROUPS = ("states", "der_states", "alg_states", "inputs", "constants", "parameters")


def arg_vectors(model, values, time=0.0, default=None):
    """The 7 arguments of the residual functions from a dict  symbol name -> scalar / nested list.
    Derivatives are named der(x).  Missing names use `default` (or raise if default is None)."""
    args = [float(values.get("time", time))]
    for g in GROUPS:
        vec = []
        for v in getattr(model, g):
            name = v.symbol.name()
            if name in values:
                vec += flat(values[name], v.symbol.shape)
            elif default is not None:
                vec += [float(default)] * (v.symbol.shape[0] * v.symbol.shape[1])
            else:
                raise KeyError(name)
        args.append(vec)
    return args


def call(f, args):
    import casadi as ca

    out = f(*[ca.DM(a) if not isinstance(a, float) else a for a in args])
    if f.n_out() == 0:
        return []
    if f.n_out() == 1:
        out = [out]
    return [np.array(ca.DM(o)) for o in out]


def residual(model, values, initial=False, time=0.0, default=None):
    """Residual vector (list of floats, equation order, column-major inside an equation)."""
    f = model.initial_residual_function if initial else model.dae_residual_function
    res = call(f, arg_vectors(model, values, time, default))
    if not res:
        return []
    return [float(x) for x in res[0].flatten(order="F")]


def names(model):
    return {g: [v.symbol.name() for v in getattr(model, g)] for g in GROUPS}
