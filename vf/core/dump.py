"""Structural dumps of pymoca objects (own walker; independent of pymoca's repr/str/to_json)."""
import enum
import hashlib


def dump(obj, skip_keys=("__deepcopy__",)):
    """Canonical nested tuple of everything reachable from obj: attribute names, values and *types*;
    dict order preserved (OrderedDicts are ordered data in pymoca); shared / cyclic objects are
    replaced by the path where they were first seen."""
    memo = {}
    out = []

    def walk(x, path):
        if x is None or isinstance(x, (bool, int, float, str)):
            out.append((type(x).__name__, repr(x)))
            return
        if isinstance(x, enum.Enum):
            out.append(("enum", type(x).__name__, x.name))
            return
        i = id(x)
        if i in memo:
            out.append(("ref", memo[i]))
            return
        memo[i] = path
        if isinstance(x, dict):
            out.append(("dict", type(x).__name__, len(x)))
            for k, v in x.items():
                out.append(("key", repr(k)))
                walk(v, path + "/" + str(k))
            return
        if isinstance(x, (list, tuple)):
            out.append((type(x).__name__, len(x)))
            for n, v in enumerate(x):
                walk(v, path + "/" + str(n))
            return
        if isinstance(x, (set, frozenset)):
            out.append(("set", len(x)))
            for v in sorted(x, key=repr):
                walk(v, path + "/{}")
            return
        d = getattr(x, "__dict__", None)
        if d is None:
            out.append(("opaque", type(x).__name__, repr(x)))
            return
        out.append(("obj", type(x).__module__ + "." + type(x).__name__, len([k for k in d if k not in skip_keys])))
        for k in d:  # attribute order is construction order; part of the structure
            if k in skip_keys:
                continue
            out.append(("attr", k))
            walk(d[k], path + "." + k)

    walk(obj, "")
    return tuple(out)


def digest(obj):
    return hashlib.sha1(repr(dump(obj)).encode()).hexdigest()


def first_diff(a, b):
    """Human-readable first difference between two dumps."""
    for n, (x, y) in enumerate(zip(a, b)):
        if x != y:
            ctx = [t for t in a[max(0, n - 6) : n] if t[0] in ("attr", "key")]
            return "at #%d after %r: %r != %r" % (n, ctx[-3:], x, y)
    if len(a) != len(b):
        return "length %d != %d" % (len(a), len(b))
    return None
