"""E2: stateless, preemption-bounded exploration of real threads at I/O seams (CHESS style).

The participants are real Python threads running real library entry points.  A baton lets exactly
one of them run; control returns to the scheduler at *seams* -- calls the library makes through
shim objects the harness has put into the library module's globals.  A shim calls

    sched.point(label)      before performing the operation          (scheduling point)
    sched.wait(label)       when the operation cannot complete yet   (thread disabled until some
                                                                      other thread makes progress)

`wait` returns True when the thread should retry and False when the scheduler resolves a deadlock
by timing this waiter out (the shim then raises what the real timeout raises).

Exploration is depth-first over choice sequences.  A run replays a prefix (any divergence is a hard
error), then always continues the running thread (choice 0).  Alternatives at point i are explored
if the number of preemptions stays within the bound.  Choosing which waiter times out at a deadlock
is an environment choice and costs nothing.
"""
import gc
import threading


class Divergence(RuntimeError):
    pass


class _T:
    def __init__(self, idx, body):
        self.idx = idx
        self.body = body
        self.go = threading.Semaphore(0)
        self.state = "new"  # ready | waiting | done
        self.label = "start"
        self.timed_out = False
        self.result = None
        self.thread = None
        self.steps = 0


_local = threading.local()


def current():
    return getattr(_local, "t", None)


def point(label):
    t = current()
    if t is None:
        return  # unscheduled context (set-up code running outside an execution)
    t.exe._yield(t, "ready", label)


def wait(label):
    t = current()
    if t is None:
        raise RuntimeError("wait() outside a scheduled thread: " + label)
    t.exe._yield(t, "waiting", label)
    if t.timed_out:
        t.timed_out = False
        return False
    return True


def thread_index():
    t = current()
    return None if t is None else t.idx


class Execution:
    """One run of all bodies under a given choice prefix."""

    def __init__(self, bodies, prefix=(), labels=None, max_points=2000):
        self.ts = [_T(i, b) for i, b in enumerate(bodies)]
        for t in self.ts:
            t.exe = self
        self.back = threading.Semaphore(0)
        self.prefix = list(prefix)
        self.want_labels = labels
        self.max_points = max_points
        self.points = []  # dicts: enabled (list of thread idx in canonical order), chosen (pos), kind, label, running_enabled
        self.error = None

    # thread side
    def _yield(self, t, state, label):
        t.state = state
        t.label = label
        self.back.release()
        t.go.acquire()

    def _main(self, t):
        _local.t = t
        t.go.acquire()
        try:
            t.result = ("ok", t.body())
        except BaseException as e:  # results, not crashes: the oracle looks at them
            import traceback

            # keep a frame-free summary only: the frames (and what they hold open, e.g. a database
            # connection) must die now, as they do when a real caller drops the exception
            t.result = ("exc", (type(e).__name__, str(e), traceback.extract_tb(e.__traceback__)))
            e.__traceback__ = None
            del e
        # Own the garbage collector: sqlite3 connections sit in reference cycles, so *when* a
        # connection dropped without close() releases its locks would otherwise depend on when the
        # cyclic collector happens to run.  Model: a finished caller's garbage is collected at once.
        gc.collect(0)
        t.state = "done"
        t.label = "done"
        self.back.release()

    # controller side
    def run(self):
        was = gc.isenabled()
        gc.disable()
        try:
            return self._run()
        finally:
            if was:
                gc.enable()

    def _run(self):
        for t in self.ts:
            t.thread = threading.Thread(target=self._main, args=(t,), daemon=True)
            t.state = "ready"
            t.thread.start()
        cur = None
        n = 0
        while True:
            live = [t for t in self.ts if t.state != "done"]
            if not live:
                break
            ready = [t for t in live if t.state == "ready"]
            kind = "sched"
            if not ready:
                ready = [t for t in live if t.state == "waiting"]
                kind = "timeout"  # deadlock: every live thread waits; one of them times out
            running_enabled = cur is not None and cur in ready and kind == "sched"
            if running_enabled:
                ready.remove(cur)
                ready.insert(0, cur)
            if n < len(self.prefix):
                c = self.prefix[n]
                if c >= len(ready):
                    raise Divergence("replay diverged at point %d: choice %d of %d" % (n, c, len(ready)))
            else:
                c = 0
            t = ready[c]
            rec = {
                "enabled": [x.idx for x in ready],
                "chosen": c,
                "kind": kind,
                "label": "%d:%s" % (t.idx, t.label),
                "running_enabled": running_enabled,
            }
            if self.want_labels is not None and n < len(self.want_labels) and self.want_labels[n] != rec["label"]:
                raise Divergence("replay diverged at point %d: %r, recorded %r" % (n, rec["label"], self.want_labels[n]))
            self.points.append(rec)
            n += 1
            if n > self.max_points:
                self.error = "more than %d scheduling points" % self.max_points
                break
            if kind == "timeout":
                t.timed_out = True
            t.state = "running"
            cur = t
            t.go.release()
            self.back.acquire()
            # t has reached its next point (or finished): progress, waiters may retry.
            # t (still) waiting: its operation did not complete, nothing changed for the others.
            if t.state != "waiting":
                for x in self.ts:
                    if x is not t and x.state == "waiting":
                        x.state = "ready"
        return self

    def choices(self):
        return [p["chosen"] for p in self.points]

    def labels(self):
        return [p["label"] for p in self.points]

    def results(self):
        return [t.result for t in self.ts]


def preemptions(points, upto):
    n = 0
    for p in points[:upto]:
        if p["running_enabled"] and p["chosen"] != 0:
            n += 1
    return n


def alternatives(points, start, bound):
    """Prefixes (choices, labels) branching off an executed trace at positions >= start within the bound."""
    out = []
    chosen = [p["chosen"] for p in points]
    labels = [p["label"] for p in points]
    for i in range(start, len(points)):
        p = points[i]
        cost = preemptions(points, i)
        for alt in range(1, len(p["enabled"])):
            c = cost + (1 if p["running_enabled"] else 0)
            if c > bound:
                continue
            out.append((chosen[:i] + [alt], labels[:i]))
    return out


def explore(run_one, bound, prefix=(), labels=None, budget=None):
    """Depth-first exploration below `prefix`.  run_one(prefix, labels) executes and checks one
    schedule and returns its Execution.  Returns (#executions, truncated?)."""
    stack = [(list(prefix), labels)]
    count = 0
    while stack:
        pre, lab = stack.pop()
        exe = run_one(pre, lab)
        count += 1
        if budget is not None and count >= budget:
            return count, True
        for alt in reversed(alternatives(exe.points, len(pre), bound)):
            stack.append(alt)
    return count, False
