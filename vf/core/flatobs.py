"""Observation of pymoca's flat model in the same canonical shape as vf.ref.flat produces, and the
comparison of the two."""
from vf.ref import flat as F
from vf.ref import past as P

DEFAULTS = {"fixed": ("bool", False)}


def observe(text, clsname):
    """Flatten with the real code.  Returns dict(vars={name: dict(type, prefixes, dims, attrs)}, eqs=[...],
    ieqs=[...]) in canonical form.  Raises whatever pymoca raises."""
    from pymoca import ast, parser, tree

    t = parser.parse(text, bypass_cache=True)
    if t is None:
        raise SyntaxError("pymoca reports a syntax error")
    ft = tree.flatten(t, ast.ComponentRef.from_string(clsname))
    fc = ft.classes[clsname]
    out = {"vars": {}, "eqs": [], "ieqs": [], "leftover_mods": []}
    for name, s in fc.symbols.items():
        dims = []
        for lst in s.dimensions:
            for d in lst:
                if isinstance(d, ast.Primary) and d.value is None:
                    continue
                dims.append(P.canon(P.conv(d)))
        attrs = {}
        for a in F.ATTRS:
            v = P.canon(P.conv(getattr(s, a)))
            if v == ("none",) or (a in DEFAULTS and v == DEFAULTS[a]):
                continue
            attrs[a] = v
        tname = ".".join(s.type.to_tuple()) if isinstance(s.type, ast.ComponentRef) else repr(s.type)
        out["vars"][name] = {
            "type": tname,
            "prefixes": frozenset(s.prefixes) - {"state"},
            "dims": tuple(dims),
            "attrs": attrs,
        }
        if s.class_modification is not None and s.class_modification.arguments:
            out["leftover_mods"].append(name)
    out["eqs"] = [P.canon(P.conv(e)) for e in fc.equations]
    out["ieqs"] = [P.canon(P.conv(e)) for e in fc.initial_equations]
    return out


def expected(flat):
    """The reference Flat in the same shape.  A binding equation of a variable that is neither parameter
    nor constant is an equation of the model (pymoca moves it to the equation list; Modelica gives it the
    same meaning), so both sides are normalised to 'equation'."""
    out = {"vars": {}, "eqs": [P.canon(e) for e in flat.eqs], "ieqs": [P.canon(e) for e in flat.ieqs]}
    for name, v in flat.vars.items():
        attrs = {}
        for a, e in v.attrs.items():
            c = P.canon(e)
            if a in DEFAULTS and c == DEFAULTS[a]:
                continue
            attrs[a] = c
        if "value" in attrs and not (v.prefixes & {"parameter", "constant"}):
            out["eqs"].append(("eq", ("var", name), attrs.pop("value")))
        out["vars"][name] = {"type": v.type, "prefixes": v.prefixes, "dims": tuple(("num", float(d)) for d in v.dims), "attrs": attrs}
    return out


def normalise_obs(obs):
    """Same normalisation on the observed side (a value left on a non-parameter symbol)."""
    for name, v in obs["vars"].items():
        if "value" in v["attrs"] and not (v["prefixes"] & {"parameter", "constant"}):
            obs["eqs"].append(("eq", ("var", name), v["attrs"].pop("value")))
    return obs


def _ms(lst):
    d = {}
    for x in lst:
        d[x] = d.get(x, 0) + 1
    return d


def compare(exp, obs, connectors=False):
    """List of (clause, detail).  With connectors=True the equation lists are not compared here (C09
    compares their solution space) and connector instance symbols are ignored."""
    out = []
    ev, ov = exp["vars"], obs["vars"]
    missing = sorted(set(ev) - set(ov))
    extra = sorted(set(ov) - set(ev))
    if missing:
        out.append(("missing-variable", "flat model lacks %r" % missing))
    if extra:
        out.append(("unexpected-variable", "flat model has %r, which no leaf component denotes" % extra))
    for n in ev:
        if n not in ov:
            continue
        e, o = ev[n], ov[n]
        if e["type"] != o["type"]:
            out.append(("type", "%s: type %s, declared %s" % (n, o["type"], e["type"])))
        if e["prefixes"] != o["prefixes"]:
            out.append(("prefixes", "%s: prefixes %s, expected %s" % (n, sorted(o["prefixes"]), sorted(e["prefixes"]))))
        if e["dims"] != o["dims"]:
            out.append(("dimensions", "%s: dimensions %r, expected %r" % (n, o["dims"], e["dims"])))
        for a in F.ATTRS:
            if e["attrs"].get(a) != o["attrs"].get(a):
                out.append(("attribute:" + a, "%s.%s is %r, expected %r" % (n, a, o["attrs"].get(a), e["attrs"].get(a))))
    if not connectors:
        for key, clause in (("eqs", "equations"), ("ieqs", "initial-equations")):
            me, mo = _ms(exp[key]), _ms(obs[key])
            if me != mo:
                lack = [k for k in me if me[k] > mo.get(k, 0)]
                surplus = [k for k in mo if mo[k] > me.get(k, 0)]
                out.append((clause, "missing %r; unexpected %r" % (lack, surplus)))
    if obs.get("leftover_mods"):
        out.append(("unapplied-modification", "symbols %r still carry unapplied modifications" % obs["leftover_mods"]))
    return out
