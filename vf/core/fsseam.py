"""File-system seam layer: every file-system operation the running process performs on a path under ONE
root folder is intercepted, whatever file it names and whichever module asks for it.

The layer replaces, for the time it is installed, the *process-wide* entry points (`builtins.open` / `io.open`,
`os.open/write/close/fsync`, `os.replace/rename/link/symlink`, `os.remove/unlink/rmdir/mkdir/truncate/utime`,
`os.stat/lstat/scandir/listdir/access`), so `shutil.move`, `pathlib.Path.replace`, `tempfile.mkstemp`,
`os.fdopen`, `os.path.getmtime/exists/getsize`, `os.walk` ... are all covered through what they call.  Paths
outside the root pass straight through.  Files opened under the root come back as a thin proxy whose `read*` /
`write` / `truncate` / `close` are operations too.

Two consumers:
* a scheduler: `point(label)` is called *before* each operation (vf.core.sched.point);
* a recorder: every *mutating* operation that completed is appended to `layer.log` as a replayable record;
  `replay(root, log[:k], partial)` re-creates the on-disk state after any prefix of the log (and after any byte
  prefix of a write) with plain system calls -- the state a crash at that moment leaves behind.

Things that would make two "processes" emulated by two threads of one process collide although real processes
would not are virtualised: `os.getpid()` (per-thread value supplied by the caller), `tempfile`'s random names
and `uuid.uuid1/uuid4` (deterministic, distinct per request).
"""
import builtins
import io
import os
import tempfile
import uuid

try:
    import _io
except ImportError:  # pragma: no cover
    _io = None

_REAL_OPEN = builtins.open
_OS_NAMES = (
    "open", "write", "close", "fsync", "fdatasync", "ftruncate",
    "replace", "rename", "link", "symlink",
    "remove", "unlink", "rmdir", "mkdir", "truncate", "utime",
    "stat", "lstat", "scandir", "listdir", "access", "getpid",
)  # fmt: skip
_REAL = {n: getattr(os, n) for n in _OS_NAMES if hasattr(os, n)}


class SeamError(RuntimeError):
    """The subject did something the layer cannot model faithfully (never a verdict)."""


def _split(b, chunks):
    n = len(b)
    if chunks <= 1 or n < chunks:
        return [b]
    cuts = [n * i // chunks for i in range(chunks + 1)]
    return [b[cuts[i] : cuts[i + 1]] for i in range(chunks)]


class _Proxy:
    """A file under the root.  Reads and writes are operations; everything else goes to the real file."""

    def __init__(self, layer, f, h, rel, writing, fd=None):
        self._l, self.f, self._h, self._rel, self._w, self._fd = layer, f, h, rel, writing, fd
        self._open = True

    # -- writing
    def write(self, b):
        lay = self._l
        for piece in _split(b, lay.chunks):
            lay._before("write", self._rel, True)
            self.f.write(piece)
            if lay.visible:
                self.f.flush()  # the operating system may publish the data of one write() in pieces
            lay._log(("write", self._h, bytes(piece) if not isinstance(piece, str) else piece))
        return len(b)

    def writelines(self, lines):
        for x in lines:
            self.write(x)

    def truncate(self, size=None):
        self._l._before("ftruncate", self._rel, True)
        self.f.flush()
        r = self.f.truncate(size)
        self._l._log(("ftruncate", self._h, r))
        return r

    def seek(self, pos, whence=0):
        r = self.f.seek(pos, whence)
        if self._w:
            self.f.flush()
            self._l._log(("seek", self._h, r))
        return r

    # -- reading
    def _buffered(self):
        """Bytes the real buffered reader already holds (they were read from the file earlier)."""
        try:
            return self.f.raw.tell() - self.f.tell()
        except Exception:
            return 0

    def _r(self, name, *a):
        # An operation only if the file itself is consulted; a request the buffer can serve observes nothing new.
        n = a[0] if a and isinstance(a[0], int) else (len(a[0]) if a and name == "readinto" else -1)
        if name not in ("read", "read1", "readinto") or n is None or n < 0 or n > self._buffered():
            self._l._before("read", self._rel, False)
        return getattr(self.f, name)(*a)

    def read(self, *a):
        return self._r("read", *a)

    def read1(self, *a):
        return self._r("read1", *a)

    def readline(self, *a):
        return self._r("readline", *a)

    def readlines(self, *a):
        return self._r("readlines", *a)

    def readinto(self, *a):
        return self._r("readinto", *a)

    def __iter__(self):
        return self

    def __next__(self):
        line = self._r("readline")
        if not line:
            raise StopIteration
        return line

    # -- life cycle
    def close(self):
        if not self._open:
            return
        if self._w:
            self._l._before("close", self._rel, True)
        self._open = False
        try:
            try:
                self._l._filenos.pop(self.f.fileno(), None)
            except Exception:
                pass
            self.f.close()
        finally:
            if self._fd is not None:
                self._l.fds.pop(self._fd, None)
            if self._w:
                self._l._log(("close", self._h))

    def __enter__(self):
        return self

    def __exit__(self, *a):
        self.close()

    def __getattr__(self, n):
        if n == "peek":  # keeps consumers (the C unpickler) on read(): one operation per refill
            raise AttributeError(n)
        return getattr(self.f, n)


class _Names:
    """Stand-in for tempfile's random name sequence: deterministic, never repeats."""

    def __init__(self, layer):
        self.l = layer

    def __iter__(self):
        return self

    def __next__(self):
        self.l._serial += 1
        return "vf%06d" % self.l._serial


class Layer:
    def __init__(self, root, point=None, chunks=1, visible=False, quiet=None, pid=None):
        """point(label): called before every operation; chunks: a write() of n bytes reaches the file in up
        to `chunks` pieces, each its own operation; visible: flush after every piece so that other openers see
        it; quiet(rel) -> True for paths nobody may modify while the layer is installed: observing them is
        independent of everything else and is neither an operation nor logged (modifying one is a SeamError);
        pid(): value of os.getpid() or None for the real one."""
        self.root = os.path.abspath(root)
        self._pre = self.root + os.sep
        self.point, self.chunks, self.visible = point, chunks, visible
        self.quiet = quiet or (lambda rel: False)
        self.pid = pid
        self.log = []  # replayable records of completed mutating operations
        self.trace = []  # labels of all operations, in order
        self.errors = []
        self.fds = {}  # os-level descriptors opened under the root: fd -> (handle, rel, writing)
        self._filenos = {}
        self._h = 0
        self._serial = 0
        self._saved = None

    # ---- helpers
    def _rel(self, path):
        if isinstance(path, int) or path is None:
            return None
        try:
            p = os.fspath(path)
        except TypeError:
            return None
        if isinstance(p, bytes):
            p = os.fsdecode(p)
        if os.path.isabs(p) and not p.startswith(self.root) and ".." not in p:
            return None  # fast path: the overwhelming majority of calls
        p = os.path.abspath(p)
        if p == self.root:
            return "."
        if p.startswith(self._pre):
            return p[len(self._pre) :]
        return None

    def _before(self, op, rels, mutating):
        if isinstance(rels, str):
            rels = (rels,)
        if any(self.quiet(r) for r in rels if not os.path.isabs(r)):
            if mutating:
                e = SeamError("%s on %r: the harness assumed nothing modifies this path" % (op, rels))
                self.errors.append(str(e))
                raise e
            return
        label = "%s:%s" % (op, "->".join(rels))
        self.trace.append(label)
        if self.point is not None:
            self.point(label)

    def _log(self, rec):
        self.log.append(rec)

    def _new(self):
        self._h += 1
        return self._h

    def _outside(self, op, path):
        e = SeamError("%s moves data across the boundary of the model folder (%r): not modelled" % (op, path))
        self.errors.append(str(e))
        return e

    # ---- patched entry points
    def _open(self, file, mode="r", *a, **k):
        if isinstance(file, int):
            t = self.fds.get(file)
            if t is None:
                return _REAL_OPEN(file, mode, *a, **k)
            f = _REAL_OPEN(file, mode, *a, **k)
            return _Proxy(self, f, t[0], t[1], t[2], fd=file if k.get("closefd", True) else None)
        rel = self._rel(file)
        if rel is None:
            return _REAL_OPEN(file, mode, *a, **k)
        if k.get("opener") is not None:
            # the opener goes through os.open (an operation of its own); adopt the descriptor it returns
            box, user = [], k["opener"]

            def opener(p, fl):
                fd = user(p, fl)
                box.append(fd)
                return fd

            f = _REAL_OPEN(file, mode, *a, **dict(k, opener=opener))
            t = self.fds.get(box[0]) if box else None
            return f if t is None else _Proxy(self, f, t[0], t[1], t[2], fd=box[0])
        writing = any(c in mode for c in "wax+")
        if self.quiet(rel) and not writing:
            return _REAL_OPEN(file, mode, *a, **k)
        self._before("open(%s)" % mode, rel, writing)
        f = _REAL_OPEN(file, mode, *a, **k)
        h = self._new()
        if writing:
            enc = None if "b" in mode else (k.get("encoding") or (a[1] if len(a) > 1 else None) or "utf-8")
            self._log(("open", h, rel, mode, enc))
            try:
                self._filenos[f.fileno()] = h
            except Exception:
                pass
        return _Proxy(self, f, h, rel, writing)

    def _os_open(self, path, flags, mode=0o777, *, dir_fd=None):
        rel = self._rel(path) if dir_fd is None else None
        if rel is None:
            return _REAL["open"](path, flags, mode, dir_fd=dir_fd)
        writing = bool(flags & (os.O_WRONLY | os.O_RDWR | os.O_CREAT | os.O_TRUNC | os.O_APPEND))
        if self.quiet(rel) and not writing:
            return _REAL["open"](path, flags, mode)
        names = [n[2:].lower() for n in ("O_WRONLY", "O_RDWR", "O_CREAT", "O_EXCL", "O_TRUNC", "O_APPEND") if flags & getattr(os, n)]
        self._before("os.open(%s)" % ("|".join(names) or "rdonly"), rel, writing)
        fd = _REAL["open"](path, flags, mode)
        h = self._new()
        self.fds[fd] = (h, rel, writing)
        if writing:
            keep = flags & (os.O_WRONLY | os.O_RDWR | os.O_CREAT | os.O_EXCL | os.O_TRUNC | os.O_APPEND)
            self._log(("os.open", h, rel, keep, mode))
        return fd

    def _os_write(self, fd, data):
        t = self.fds.get(fd)
        if t is None:
            return _REAL["write"](fd, data)
        self._before("write", t[1], True)
        n = _REAL["write"](fd, data)
        self._log(("write", t[0], bytes(data[:n])))
        return n

    def _os_close(self, fd):
        t = self.fds.pop(fd, None)
        if t is None:
            return _REAL["close"](fd)
        if t[2]:
            self._before("close", t[1], True)
        try:
            return _REAL["close"](fd)
        finally:
            if t[2]:
                self._log(("close", t[0]))

    def _os_ftruncate(self, fd, length):
        t = self.fds.get(fd)
        if t is None:
            return _REAL["ftruncate"](fd, length)
        self._before("ftruncate", t[1], True)
        r = _REAL["ftruncate"](fd, length)
        self._log(("ftruncate", t[0], length))
        return r

    def _sync(self, name):
        def f(fd):
            r = _REAL[name](fd)
            h = self.fds.get(fd, (None,))[0] or self._filenos.get(fd)
            if h is not None:
                self._log(("fsync", h))  # durability barrier: no effect another process can observe
            return r

        return f

    def _two(self, name):
        real = _REAL[name]

        def f(src, dst, *a, **k):
            rd = self._rel(dst)
            rs = self._rel(src) if name != "symlink" else None
            if (rs is None and rd is None) or any(k.get(x) is not None for x in ("src_dir_fd", "dst_dir_fd", "dir_fd")):
                return real(src, dst, *a, **k)
            if name == "symlink":
                rs = os.fsdecode(os.fspath(src))  # the link text, kept as written
            elif rd is None or rs is None:
                raise self._outside(name, (os.fspath(src), os.fspath(dst)))
            self._before(name, (rs, rd), True)
            r = real(src, dst, *a, **k)
            self._log((name, rs, rd))
            return r

        return f

    def _one(self, name):
        real = _REAL[name]

        def f(path, *a, **k):
            rel = self._rel(path) if k.get("dir_fd") is None else None
            if rel is None:
                return real(path, *a, **k)
            self._before(name, rel, True)
            r = real(path, *a, **k)
            self._log((name, rel) + tuple(a) + ((k.get("times"),) if name == "utime" and "times" in k else ()))
            return r

        return f

    def _observe(self, name):
        real = _REAL[name]

        def f(path=".", *a, **k):
            rel = self._rel(path) if k.get("dir_fd") is None else None
            if rel is not None:
                self._before(name, rel, False)
            return real(path, *a, **k)

        return f

    def _getpid(self):
        if self.pid is not None:
            v = self.pid()
            if v is not None:
                return v
        return _REAL["getpid"]()

    def _uuid(self, version):
        def f(*a, **k):
            self._serial += 1
            return uuid.UUID(int=(0x5EA << 100) + self._serial, version=version)

        return f

    # ---- install / uninstall
    def install(self):
        if self._saved is not None:
            raise RuntimeError("layer already installed")
        new_os = {
            "open": self._os_open,
            "write": self._os_write,
            "close": self._os_close,
            "ftruncate": self._os_ftruncate,
            "fsync": self._sync("fsync"),
            "fdatasync": self._sync("fdatasync"),
            "getpid": self._getpid,
        }
        for n in ("replace", "rename", "link", "symlink"):
            new_os[n] = self._two(n)
        for n in ("remove", "unlink", "rmdir", "mkdir", "truncate", "utime"):
            new_os[n] = self._one(n)
        for n in ("stat", "lstat", "scandir", "listdir", "access"):
            new_os[n] = self._observe(n)
        self._saved = {
            "os": {n: getattr(os, n) for n in new_os if n in _REAL},
            "open": (builtins.open, io.open, getattr(_io, "open", None)),
            "names": tempfile._name_sequence,
            "uuid": (uuid.uuid1, uuid.uuid4),
        }
        for n, fn in new_os.items():
            if n in _REAL:
                setattr(os, n, fn)
        builtins.open = io.open = self._open
        if _io is not None:
            _io.open = self._open
        tempfile._name_sequence = _Names(self)
        uuid.uuid1, uuid.uuid4 = self._uuid(1), self._uuid(4)
        return self

    def uninstall(self):
        s, self._saved = self._saved, None
        if s is None:
            return
        for n, fn in s["os"].items():
            setattr(os, n, fn)
        builtins.open, io.open = s["open"][0], s["open"][1]
        if _io is not None:
            _io.open = s["open"][2]
        tempfile._name_sequence = s["names"]
        uuid.uuid1, uuid.uuid4 = s["uuid"]

    def __enter__(self):
        return self.install()

    def __exit__(self, *a):
        self.uninstall()


# ---- crash states ------------------------------------------------------------------------------------------


def _flags(mode):
    fl = os.O_RDWR if "+" in mode else os.O_WRONLY
    if "w" in mode:
        fl |= os.O_CREAT | os.O_TRUNC
    elif "x" in mode:
        fl |= os.O_CREAT | os.O_EXCL
    elif "a" in mode:
        fl |= os.O_CREAT | os.O_APPEND
    return fl


def write_sizes(log):
    """index -> number of bytes for the write records of a log."""
    out = {}
    for i, r in enumerate(log):
        if r[0] == "write":
            out[i] = len(r[2].encode("utf-8") if isinstance(r[2], str) else r[2])
    return out


def replay(root, log, upto, partial=None):
    """Apply log[:upto] (and the first `partial` bytes of the write record log[upto]) to the folder `root`
    with plain system calls.  Descriptors still open at the cut are closed without further effect, as the
    kernel does for a process that dies."""
    fds, enc = {}, {}
    J = lambda rel: os.path.join(root, rel)  # noqa: E731

    def data_of(r):
        d = r[2]
        return d.encode(enc.get(r[1]) or "utf-8") if isinstance(d, str) else d

    try:
        for i, r in enumerate(log[: upto + (1 if partial else 0)]):
            op = r[0]
            if op == "open":
                fds[r[1]] = os.open(J(r[2]), _flags(r[3]), 0o666)
                enc[r[1]] = r[4]
            elif op == "os.open":
                fds[r[1]] = os.open(J(r[2]), r[3], r[4])
            elif op == "write":
                d = data_of(r)
                if i == upto:
                    d = d[:partial]
                while d:
                    d = d[os.write(fds[r[1]], d) :]
            elif op == "seek":
                os.lseek(fds[r[1]], r[2], os.SEEK_SET)
            elif op == "ftruncate":
                os.ftruncate(fds[r[1]], r[2])
            elif op == "close":
                os.close(fds.pop(r[1]))
            elif op == "fsync":
                pass
            elif op == "symlink":
                os.symlink(r[1], J(r[2]))
            elif op in ("replace", "rename", "link"):
                getattr(os, op)(J(r[1]), J(r[2]))
            elif op == "utime":
                os.utime(J(r[1]), r[2] if len(r) > 2 else None)
            elif op in ("remove", "unlink", "rmdir", "mkdir", "truncate"):
                getattr(os, op)(J(r[1]), *r[2:])
            else:
                raise SeamError("cannot replay %r" % (r,))
    finally:
        for fd in fds.values():
            os.close(fd)


def describe(rec):
    if rec[0] == "write":
        return "write(%d bytes)#%d" % (len(rec[2]), rec[1])
    if rec[0] in ("open", "os.open"):
        return "%s %s %s #%d" % (rec[0], rec[2], rec[3], rec[1])
    return " ".join(str(x) for x in rec)
