"""Shared plumbing: subject-tree selection, scratch space, worker pool,
violation / known-finding bookkeeping, evidence and replay files.

Nothing in here decides a property; it only carries what the explorers find.
"""
import atexit
import hashlib
import json
import os
import shutil
import sys
import tempfile
import time
import traceback
from concurrent.futures import ProcessPoolExecutor
import multiprocessing as mp

VERIF = os.path.dirname(os.path.dirname(os.path.dirname(os.path.abspath(__file__))))
REPO = os.environ.get("VERIF_REPO", "/repo")
# Only a run on the real subject (/repo's working tree) may write /verif/evidence: a run against a scratch
# tree (VERIF_REPO=<mutant worktree>, see tools/mutrun.sh) writes under out/mutant/ (git-ignored) instead, so
# the committed evidence always describes the unchanged tree.  VERIF_EVIDENCE_DIR overrides either.
_ON_SUBJECT = os.path.realpath(REPO) == os.path.realpath("/repo")
EVIDENCE_DIR = os.environ.get("VERIF_EVIDENCE_DIR") or (
    os.path.join(VERIF, "evidence") if _ON_SUBJECT else os.path.join(VERIF, "out", "mutant", "evidence")
)
REPLAY_DIR = os.path.join(VERIF, "out", "replays") if _ON_SUBJECT else os.path.join(VERIF, "out", "mutant", "replays")
FINDINGS_FILE = os.path.join(VERIF, "known_findings.json")
NCPU = int(os.environ.get("VERIF_JOBS", "0")) or min(16, os.cpu_count() or 1)


def setup_subject():
    """Put the subject tree (default /repo, override VERIF_REPO for mutants) first on sys.path."""
    for p in (REPO, os.path.join(REPO, "src")):
        while p in sys.path:
            sys.path.remove(p)
        sys.path.insert(0, p)


_SCRATCH = None


def scratch_root():
    """Per-run scratch directory (tmpfs when available), removed at exit."""
    global _SCRATCH
    if _SCRATCH is None or not os.path.isdir(_SCRATCH):
        base = "/dev/shm" if os.path.isdir("/dev/shm") and os.access("/dev/shm", os.W_OK) else None
        _SCRATCH = tempfile.mkdtemp(prefix="vf_", dir=base)
        pid = os.getpid()

        def _rm(path=_SCRATCH, pid=pid):
            if os.getpid() == pid:
                shutil.rmtree(path, ignore_errors=True)

        atexit.register(_rm)
    return _SCRATCH


def new_scratch(tag="d"):
    return tempfile.mkdtemp(prefix=tag + "_", dir=scratch_root())


def isolate_process():
    """Private XDG_CACHE_HOME so pymoca's default parse cache is never shared between workers."""
    d = os.path.join(scratch_root(), "xdg_%d" % os.getpid())
    os.makedirs(d, exist_ok=True)
    os.environ["XDG_CACHE_HOME"] = d
    return d


def quiet_logging():
    import logging

    logging.getLogger("pymoca").setLevel(logging.CRITICAL)
    logging.getLogger("pymoca").propagate = False
    if not logging.getLogger("pymoca").handlers:
        logging.getLogger("pymoca").addHandler(logging.NullHandler())
    try:  # the ANTLR runtime (third party, not the subject) prints every syntax error to stderr
        from antlr4.error.ErrorListener import ConsoleErrorListener

        ConsoleErrorListener.syntaxError = lambda self, *a, **k: None
    except Exception:
        pass


# ----------------------------------------------------------------------------
# worker pool


def _worker_init(scratch, init, initargs):
    global _SCRATCH
    _SCRATCH = os.path.join(scratch, "w%d" % os.getpid())  # private to this worker
    os.makedirs(_SCRATCH, exist_ok=True)
    isolate_process()
    quiet_logging()
    if init is not None:
        init(*initargs)


class Pool:
    """Long-lived worker processes (fork start: the parent has already imported the subject)."""

    def __init__(self, jobs=None, init=None, initargs=()):
        self.jobs = jobs or NCPU
        self._ex = None
        if self.jobs > 1:
            ctx = mp.get_context("fork")
            self._ex = ProcessPoolExecutor(
                self.jobs,
                mp_context=ctx,
                initializer=_worker_init,
                initargs=(scratch_root(), init, initargs),
            )
        else:
            isolate_process()
            if init is not None:
                init(*initargs)

    def map(self, fn, items, chunksize=None):
        items = list(items)
        if not items:
            return []
        if self._ex is None:
            return [fn(i) for i in items]
        if chunksize is None:
            chunksize = max(1, min(64, len(items) // (self.jobs * 4) or 1))
        return list(self._ex.map(fn, items, chunksize=chunksize))

    def close(self):
        if self._ex is not None:
            self._ex.shutdown(wait=True, cancel_futures=True)
            self._ex = None

    def __enter__(self):
        return self

    def __exit__(self, *a):
        self.close()


# ----------------------------------------------------------------------------
# run context


def jsonable(x, depth=0):
    if depth > 12:
        return repr(x)
    if isinstance(x, (str, int, bool)) or x is None:
        return x
    if isinstance(x, float):
        return x if x == x and abs(x) != float("inf") else repr(x)
    if isinstance(x, dict):
        return {str(k): jsonable(v, depth + 1) for k, v in x.items()}
    if isinstance(x, (list, tuple)):
        return [jsonable(v, depth + 1) for v in x]
    if isinstance(x, (set, frozenset)):
        return sorted((jsonable(v, depth + 1) for v in x), key=repr)
    return repr(x)


class Ctx:
    """One run of one check."""

    def __init__(self, prop, tier, seed, level):
        self.prop = prop
        self.tier = tier
        self.seed = seed
        self.level = level
        self.t0 = time.time()
        self.coverage = {}
        self.assumptions = []
        self.violations = []  # (signature, message, case)
        self.caps = []
        self._samples = []

    # -- findings --------------------------------------------------------------
    def violation(self, signature, message, case):
        """signature: stable short key of the failing clause/site (matched against known findings);
        case: json-able replay payload."""
        self.violations.append((signature, message, jsonable(case)))

    def sample(self, case, limit=6):
        if len(self._samples) < limit:
            self._samples.append(jsonable(case))

    def cap(self, what):
        self.caps.append(what)

    def elapsed(self):
        return time.time() - self.t0

    # -- finish ----------------------------------------------------------------
    def finish(self):
        known = load_findings(self.prop)
        open_by_sig = {f["signature"]: f for f in known if f.get("status") == "open"}
        hit = {}
        new = []
        for sig, msg, case in self.violations:
            if sig in open_by_sig:
                hit.setdefault(sig, []).append((msg, case))
            else:
                new.append((sig, msg, case))
        for sig, f in open_by_sig.items():
            n = len(hit.get(sig, ()))
            print(
                "KNOWN-FINDING: property=%s %s [%s; %d case(s) this run]"
                % (self.prop, f["what"], sig, n)
            )
        cov = dict(self.coverage)
        cov.setdefault("samples", self._samples or ["(no sample recorded)"])
        if self.caps:
            cov["caps_hit"] = self.caps
            cov["exhaustive"] = False
        cov["known_findings_observed"] = {k: len(v) for k, v in hit.items()}
        ev = {
            "property_id": self.prop,
            "tier": self.tier,
            "seed": self.seed,
            "level": self.level,
            "coverage": jsonable(cov),
            "assumptions": self.assumptions,
            "wall_s": round(self.elapsed(), 3),
            "violations": len(new),
        }
        os.makedirs(EVIDENCE_DIR, exist_ok=True)
        path = os.path.join(EVIDENCE_DIR, self.prop + ".json")
        tmp = path + ".tmp%d" % os.getpid()
        with open(tmp, "w") as f:
            json.dump(ev, f, indent=1, sort_keys=True)
            f.write("\n")
        os.replace(tmp, path)
        summary = {k: v for k, v in cov.items() if isinstance(v, (int, float, bool, str)) and k != "rule"}
        print("%s %s seed=%d %.1fs %s" % (self.prop, self.tier, self.seed, self.elapsed(), json.dumps(summary)))
        if not new:
            return 0
        os.makedirs(REPLAY_DIR, exist_ok=True)
        seen = set()
        shown = 0
        for sig, msg, case in new:
            if sig in seen:
                continue
            seen.add(sig)
            h = hashlib.sha1((sig + json.dumps(case, sort_keys=True)).encode()).hexdigest()[:10]
            rp = os.path.join(REPLAY_DIR, "%s_%s.json" % (self.prop, h))
            with open(rp, "w") as f:
                json.dump({"property": self.prop, "signature": sig, "message": msg, "case": case}, f, indent=1)
            shown += 1
            if shown <= 20:
                print("  -- %s: %s" % (sig, msg[:600]))
                print("VIOLATION property=%s replay=%s" % (self.prop, rp))
        print("%d violating case(s), %d distinct signature(s)" % (len(new), len(seen)))
        return 1


def load_findings(prop=None):
    if not os.path.exists(FINDINGS_FILE):
        return []
    with open(FINDINGS_FILE) as f:
        data = json.load(f)
    fs = data.get("findings", [])
    if prop is not None:
        fs = [f for f in fs if f.get("property") == prop]
    return fs


def exc_sig(e):
    """Stable description of an exception: type + innermost frame inside the subject tree.
    Accepts an exception or a (type name, message, StackSummary) triple."""
    if isinstance(e, tuple):
        name, tb = e[0], e[2]
    else:
        name, tb = type(e).__name__, traceback.extract_tb(e.__traceback__)
    site = ""
    for fr in reversed(tb):
        if "/pymoca/" in fr.filename or "/tools/" in fr.filename:
            site = "%s:%s" % (os.path.basename(fr.filename), fr.name)
            break
    return "%s@%s" % (name, site)
