"""Harness around pymoca's CasADi model cache (transfer_model / save_model / load_model):
folders, canonical comparable form of a (fresh or cached) model, comparison."""
import math
import os
import zlib

import numpy as np

from vf.core import cas

PRIMES = [2.5, -1.5, 3.25, 0.75, -2.25, 1.75, 4.5, -0.5, 5.5, -3.75, 6.25, 0.25, -4.25, 7.5, 1.25, -5.75, 8.25, 2.75, -6.5, 9.5]
ATTRS = ("value", "min", "max", "start", "fixed", "nominal")
GROUPS = ("states", "der_states", "alg_states", "inputs", "constants", "parameters")


def write_files(folder, files, mtime=None):
    os.makedirs(folder, exist_ok=True)
    for name, text in files.items():
        p = os.path.join(folder, name)
        os.makedirs(os.path.dirname(p), exist_ok=True)
        with open(p, "w", encoding="utf-8") as f:
            f.write(text)
        if mtime is not None:
            os.utime(p, (mtime, mtime))


def point_values(model, k):
    """Deterministic value per symbol *name* (so a fresh and a cached model get the same point)."""
    vals = {"time": 0.5 + k}
    for g in GROUPS:
        for v in getattr(model, g):
            name = v.symbol.name()
            n = v.symbol.shape[0] * v.symbol.shape[1]
            h = zlib.crc32(name.encode()) + 7 * k
            a = [PRIMES[(h + i) % len(PRIMES)] for i in range(n)]
            vals[name] = a if n != 1 else a[0]
    return vals


def _attr_at(model, val, pvals):
    import casadi as ca

    if isinstance(val, ca.MX):
        syms = [v.symbol for v in model.parameters]
        f = ca.Function("attr", syms, [val])
        r = f(*[ca.DM(pvals[v.symbol.name()]) for v in model.parameters])
        return [float(x) for x in np.array(ca.DM(r)).flatten(order="F")]
    try:
        a = np.array(val, dtype=float)
    except Exception:
        return [repr(val)]
    return [float(x) for x in (a.flatten(order="F") if a.ndim == 2 else a.ravel())]


def canon(model, npoints=2):
    """Comparable form of everything C19 lists."""
    import casadi as ca

    out = {"variables": {}, "attrs": {}, "functions": {}}
    for g in GROUPS:
        out["variables"][g] = [(v.symbol.name(), tuple(v.symbol.shape), v.python_type.__name__) for v in getattr(model, g)]
    out["string_parameters"] = [(v.name, v.value, v.start, v.fixed) for v in model.string_parameters]
    out["string_constants"] = [(v.name, v.value, v.start, v.fixed) for v in model.string_constants]
    out["outputs"] = list(model.outputs)
    out["delay_states"] = list(model.delay_states)
    out["aliases"] = sorted((c, tuple(sorted(a))) for c, a in model.alias_relation)
    out["variable_aliases"] = sorted((v.symbol.name(), tuple(sorted(v.aliases))) for g in GROUPS for v in getattr(model, g) if getattr(v, "aliases", None))
    for k in range(npoints):
        vals = point_values(model, k)
        for g in ("states", "alg_states", "inputs", "parameters", "constants"):
            for v in getattr(model, g):
                for a in ATTRS:
                    out["attrs"][(k, g, v.symbol.name(), a)] = _attr_at(model, getattr(v, a), vals)
        args = cas.arg_vectors(model, vals, time=vals["time"])
        for name in ("dae_residual", "initial_residual", "delay_arguments"):
            f = getattr(model, name + "_function")
            out["functions"][(k, name)] = [[float(x) for x in np.array(o).flatten(order="F")] for o in cas.call(f, args)]
        # the (expr, duration) pairs the model object itself exposes
        syms, svals = [model.time], [ca.DM(vals["time"])]
        for g in GROUPS:
            for v in getattr(model, g):
                syms.append(v.symbol)
                svals.append(ca.DM(vals[v.symbol.name()]))
        dl = []
        for d in model.delay_arguments:
            f = ca.Function("d", syms, [ca.MX(d.expr), ca.MX(d.duration)], {"allow_free": False})
            r = f(*svals)
            dl.append([[float(x) for x in np.array(ca.DM(o)).flatten(order="F")] for o in r])
        out["functions"][(k, "delay_arguments_list")] = dl
        pv = []
        for v in model.parameters:
            pv += cas.flat(vals[v.symbol.name()], v.symbol.shape)
        md = model.variable_metadata_function(ca.DM(pv))
        out["functions"][(k, "variable_metadata")] = [[float(x) for x in np.array(ca.DM(o)).flatten(order="F")] for o in md]
    return out


def close(a, b):
    if isinstance(a, (list, tuple)):
        return isinstance(b, (list, tuple)) and len(a) == len(b) and all(close(x, y) for x, y in zip(a, b))
    if isinstance(a, float) or isinstance(b, float):
        try:
            a, b = float(a), float(b)
        except (TypeError, ValueError):
            return a == b
        if math.isnan(a) or math.isnan(b):
            return math.isnan(a) and math.isnan(b)
        if math.isinf(a) or math.isinf(b):
            return a == b
        return abs(a - b) <= 1e-9 * max(1.0, abs(a), abs(b))
    return a == b


def _same(a, b, broadcast):
    if broadcast and isinstance(a, list) and isinstance(b, list) and len(a) != len(b) and min(len(a), len(b)) == 1:
        n = max(len(a), len(b))
        a, b = (a * n if len(a) == 1 else a), (b * n if len(b) == 1 else b)
    return close(a, b)


def diff(c1, c2, broadcast_attrs=False):
    """List of (what, detail) differences between two canonical forms.
    broadcast_attrs: an attribute given as one value for a whole array variable (Modelica `each`) equals the
    same value repeated for every element (default off: lengths must agree)."""
    out = []
    for key in ("variables", "string_parameters", "string_constants", "outputs", "delay_states", "aliases", "variable_aliases"):
        if c1[key] != c2[key]:
            out.append((key, "%r != %r" % (c1[key], c2[key])))
    for sect in ("attrs", "functions"):
        ks = sorted(set(c1[sect]) | set(c2[sect]), key=repr)
        for k in ks:
            if k not in c1[sect] or k not in c2[sect]:
                out.append((sect + ":" + str(k[-1]), "%r only on one side" % (k,)))
            elif not _same(c1[sect][k], c2[sect][k], broadcast_attrs and sect == "attrs"):
                out.append((sect + ":" + str(k[-1]), "%r: %r != %r" % (k, c1[sect][k], c2[sect][k])))
    return out
