"""E1: explicit-state breadth-first search over the *real* transition function.

A state is represented by an event history that reaches it (live pymoca
objects do not copy reliably, so workers rebuild states by replaying the
history on fresh objects or by restoring byte snapshots).  `expand(hist)` is a
module-level function of the check (so it can run in worker processes); it
applies every enabled event to the state reached by `hist` and returns one
record per transition:

    {"ev": <json-able event>, "key": <hashable canonical abstraction of the
     successor>, "viol": [(signature, message), ...], "dev": <int deviations
     this event costs>, "stop": <bool: do not expand the successor>}

The search is level-synchronous so the frontier can be farmed out to the pool
and the result is independent of worker scheduling: successors are merged in
frontier order, the first history reaching an abstract state represents it.
With deviation bounds a state is re-expanded when it is reached again with
fewer deviations spent (otherwise futures within the budget could be lost).
"""


def search(ctx, pool, expand, init_key, max_depth, max_dev=None, init_hist=(), order=None):
    """Returns stats dict.  Violations are reported through ctx."""
    seen = {init_key: 0}  # key -> min deviations spent
    frontier = [(tuple(init_hist), 0)]
    states, transitions, depth = 1, 0, 0
    closed = False
    longest = tuple(init_hist)
    first_sample_done = False
    while frontier and depth < max_depth:
        depth += 1
        results = pool.map(expand, [h for h, _ in frontier])
        nxt = []
        for (hist, dev), recs in zip(frontier, results):
            for r in recs:
                d = dev + int(r.get("dev", 0))
                if max_dev is not None and d > max_dev:
                    continue
                transitions += 1
                h2 = hist + (r["ev"],)
                for sig, msg in r.get("viol", ()):
                    ctx.violation(sig, msg, {"history": list(h2)})
                if not first_sample_done:
                    ctx.sample({"history": list(h2)})
                    first_sample_done = True
                k = r["key"]
                old = seen.get(k)
                if old is None:
                    states += 1
                if old is None or d < old:
                    seen[k] = d
                    if not r.get("stop"):
                        nxt.append((h2, d))
                        longest = h2
        frontier = nxt
        if not frontier:
            closed = True
    ctx.sample({"history": list(longest)})
    return {
        "states": states,
        "transitions": transitions,
        "max_depth": depth,
        "closed": closed,
        "frontier_left": len(frontier),
    }
