"""Per-property registration data; tools/gen_manifest.py turns this into MANIFEST.json."""

ENGINES = [
    {
        "name": "E1-bfs",
        "path": "vf/core/bfs.py",
        "kind_free_text": "explicit-state breadth-first search over event histories applied to the real objects, "
        "canonical state abstraction, closure or depth/deviation bound",
    },
    {
        "name": "E2-sched",
        "path": "vf/core/sched.py",
        "kind_free_text": "stateless preemption-bounded schedule exploration (CHESS style) of real threads at I/O seams",
    },
    {
        "name": "E3-crash",
        "path": "vf/checks/c21.py",
        "kind_free_text": "crash-point / torn-write enumeration: every prefix of the bytes a write path produces",
    },
    {
        "name": "E4-enum",
        "path": "vf/ref/",
        "kind_free_text": "bounded-exhaustive enumeration of programs / inputs / option sets against a reference model",
    },
]

# id -> dict(engine, level, technique, text, note, design)
CHECKS = {}


def reg(pid, engine, level, technique, text, note, design=None):
    CHECKS[pid] = dict(engine=engine, level=level, technique=technique, text=text, note=note, design=design or ("DESIGN.md section 2, " + pid))


reg(
    "C17",
    "E1-bfs",
    "model_checking",
    "explicit-state BFS to closure over the real AliasRelation vs. a reference signed partition",
    "Every reachable state of an AliasRelation over 3 (quick) / 4 (thorough) names with both signs under add, remove and "
    "copy is visited (search runs to closure, not to a depth bound) and the whole public API is compared with a reference "
    "signed union-find after every transition, on both sides of the last copy.",
    "Names beyond 4 and removal through signed names are not explored; which member is canonical is left to the "
    "implementation; trusted base: the 60-line reference in vf/checks/c17.py.",
)

NOT_DONE_REASON = "check not completed yet in this build (see DESIGN.md section 6 build order)"

reg(
    "C05",
    "E1-bfs",
    "model_checking",
    "explicit-state BFS over request histories on one parsed tree, differential oracle against a fresh parse",
    "All sequences of flatten / CasADi / SymPy / XML requests (every class, with repetition) up to length 3 (quick) / 5 "
    "(thorough) on one parsed tree are executed on the real code for 5 hand-written libraries and every test model; "
    "each step must equal the same request on a fresh parse. States are structural fingerprints of the whole tree, so "
    "when no request changes the tree the search closes and the result holds for histories of any length by induction. "
    "All ordered pairs of -m requests through tools.compiler.main are compared with the single requests.",
    "Libraries are finite samples of the program space (the history quantifier is what is exhausted); results are "
    "compared as pymoca's own JSON form of the flat tree / str(Model)+attributes / generated text; exception type only.",
)

reg(
    "C06",
    "E1-bfs",
    "model_checking",
    "explicit-state BFS over deepcopy/edit interleavings on up to 3 trees, differential oracle against fresh parse + own edits",
    "All histories up to length 3 (quick) / 5 (thorough) with <= 2 / 3 edits over deepcopy of any tree and add/remove "
    "symbol/equation/class on a component-type class, a base class and the top model, on up to 3 trees (copies of "
    "copies included). After every event every class of every tree is flattened and must equal a fresh parse carrying "
    "exactly that tree's own edits.",
    "One library (component types + extends + modifications); edits through the public AST API only; the expected "
    "result uses the same AST API on a never-copied fresh parse, so defects of add_/remove_ themselves are not seen.",
)

reg(
    "C01",
    "E1-bfs",
    "model_checking",
    "explicit-state BFS over cache-event histories on a real cache folder (deviation-bounded) + every prefix of a stored pickle",
    "Every history of length <= 4 with <= 2 deviations (quick) / <= 6 with <= 3 (thorough) over parse(OK1/OK2/BAD, "
    "expiration, always_update), module reload, version change (incl. .dirty), clock jumps, entry faults (empty, "
    "truncated, garbage, class gone, other-version entry holding a different tree), layout faults and file faults is "
    "executed on the real parse() with the clock and version behind seams; every returned tree is compared node for "
    "node (types included) with the uncached parse, None iff syntax error; no row for the broken text, no None stored, "
    ".dirty leaves the folder untouched. Plus every 16th (quick) / every (thorough) prefix of the stored pickle.",
    "Three fixed texts; one process and one folder (sharing is C02); state abstraction buckets last_hit by the cut "
    "points parse() compares with; pickles that load to a foreign object under the *current* version are outside the "
    "alphabet.",
)

reg(
    "C02",
    "E2-sched",
    "model_checking",
    "stateless preemption-bounded schedule exploration of real parse() threads at every SQLite / os.remove seam",
    "All interleavings with <= 2 preemptions (quick) / <= 3 (thorough; 3 callers with <= 2) of 2-3 real parse() calls "
    "on one cache database that is absent, holds the text, has a wrong layout, is corrupt, or is initialised for one "
    "caller only -- shared as threads and as processes (path aliases: separate initialized_dbs keys, same inode locks). "
    "SQLite's own lock manager decides every BUSY; the shim turns a BUSY into an immediate error or a disabled thread by "
    "SQLite's documented rule, which is calibrated against the real library at the start of each run. Oracle: every call "
    "returns the uncached tree, none raises, no os.remove of a file another caller has open, database intact at the end.",
    "Lock hold times << 5 s busy timeout (timeouts only at true deadlock); cyclic garbage of a finished caller is "
    "collected at once; the free-running 16-process clause of the quantifier is sampling and not decided; known finding "
    "D5:removes-database-in-use is listed in known_findings.json.",
)

reg(
    "C03",
    "E4-enum",
    "exploration",
    "bounded-exhaustive enumeration of typed expression trees x 3 parenthesisations, value oracle against a reference evaluator",
    "Every well-typed Real/Boolean expression tree with <= 2 operator nodes over the full alphabet (+ - * / ^ and "
    "element-wise forms, unary +/-, six relations, not/and/or, if, sin/max) and <= 3 over the core alphabet (quick; 3 / 4 "
    "thorough) is printed with minimal (Modelica grammar), full and doubled parentheses, parsed by the shipped parser, "
    "and pymoca's tree must evaluate to the reference value of the source tree on a 16-point grid (ties included). "
    "The run measures how many trees are grouping-sensitive (a rotation of the unparenthesised text changes the value). "
    "Number / string / Boolean literal spellings are compared by value and Python type.",
    "Value-based (not shape-based) comparison on a finite grid; only valid Modelica is generated; a string literal with "
    "escape sequences may keep its raw text (pymoca's convention) or have the escapes resolved, nothing else; a parser regenerated from Modelica.g4 is deliberately not a subject (a grammar edit that "
    "is not regenerated does not change behaviour).",
)

reg(
    "C11",
    "E4-enum",
    "exploration",
    "bounded-exhaustive model families, residual functions evaluated on a grid against a reference evaluator",
    "Complete families of single-class models -- all scalar expression trees with <= 2 (quick) / 3 (thorough) operators "
    "as right-hand sides, array equations, every valid subscript and slice of small 1-D/2-D arrays on either side, "
    "for-equations (plain, shifted, sub-range, parameter bound, der), if-equations with elseif, initial equations, der "
    "as independent input, functions with <= 2 / 3 statements (assignment, if, for; protected temporaries; several "
    "outputs) -- are generated and dae_residual_function / initial_residual_function are compared per top-level equation "
    "with lhs - rhs under the reference semantics (Booleans 0/1, and = product, or = sum, 1-based inclusive indexing) "
    "on 4 / 8 grid points including a tie point.",
    "Finite grid; entries inside one top-level equation compared as a multiset; array constructors with variable "
    "elements and nested literal matrices in equations are outside the alphabet (not in the statement's list).",
)

reg(
    "C23",
    "E4-enum",
    "exploration",
    "full window product of subscripts / slice bounds / loop ranges around the valid range, reference index semantics",
    "For 1-D arrays of size 1..3 every subscript in [-1, n+2] (both sides of an equation), every slice lo:hi over the "
    "window with a sized and a shape-agnostic consumer, every for-loop lo:hi over the window with x[i], x[i+1], x[i-1]; "
    "for 2x2 / 2x3 matrices every (i,j), (i,:), (:,j) (thorough: A[i, lo:hi]); subscripts on scalars. The reference "
    "decides in/out of range: in range must generate and select exactly those elements (3 grid points, distinct element "
    "values), out of range must raise from generate() or residual construction.",
    "Arrays up to size 3 and window +-2; empty ranges (hi < lo) are legal and not judged; 3-D arrays and nested "
    "component arrays are not in the alphabet.",
)

reg(
    "C10",
    "E4-enum",
    "exploration",
    "exhaustive enumeration of variable configurations (singles, ordered pairs, triples) against a reference classification",
    "Every single configuration of variability x causality x type x der() placement (direct, inside an expression, of a "
    "sum, only in an initial equation, on a nested component variable), every ordered pair (thorough: all pairs and "
    "triples of the core ones) is generated; each variable must sit in exactly the list the precedence constant > "
    "parameter > top-level input > differentiated > algebraic assigns, String ones in the string lists, one der_state "
    "per state in matching order, declaration order within a category (names chosen so that it differs from name order), "
    "outputs exactly the output-prefixed states/algebraics, Integer/Boolean python types kept.",
    "Flat model plus one nested component; flow/stream prefixes and der() of parameters/constants are outside the alphabet.",
)

reg(
    "C13",
    "E4-enum",
    "exploration",
    "exhaustive enumeration of (variable kind x attribute x expression form) singles and pairs against reference attribute values",
    "For 14 variable kinds (Real/Integer/Boolean; scalar, 1-D, 2-D; algebraic, state, input, parameter, constant, output, "
    "discrete) the defaults, every single (attribute, form) -- literal, integer literal, -p, 2*p+1, p/2, p*q, p^2, sin(p), "
    "each-modified and array literals -- and all attribute pairs with literal / affine / non-affine forms are generated; "
    "each attribute is compared with its reference value at 3 parameter points, both on the Variable object (MX "
    "evaluated as a function of the parameters) and in the row/column of variable_metadata_function, so both the "
    "affine-rebuild branch and the non-affine branch of that function are forced; Python types of Integer/Boolean "
    "variables and their literal attributes are checked.",
    "Finite parameter grid.",
)

reg(
    "C12",
    "E4-enum",
    "exploration",
    "all 8 option settings x every loop/function/delay model, differential comparison with the default setting",
    "Every for-equation and function model of the C11 families plus loop-with-call, delay and delay-in-loop models is "
    "generated and simplified under all 8 settings of (unroll_loops, inline_functions, expand_mx); variable names, order, "
    "shapes, Python types, attribute values, outputs and delay states must equal the default setting's, and the "
    "residual, initial-residual, metadata and delay-argument functions must agree with it on 3 grid points.",
    "Differential oracle (the default setting's meaning itself is C11's subject); finite grid.",
)

reg(
    "C19",
    "E4-enum",
    "exploration",
    "model families x option sets within distance 1 of {cache} / {codegen}; fresh Model vs CachedModel in canonical form",
    "Eight model families (parameter-dependent attributes, positive/negative alias chains, delay, delay in a loop, several "
    "delays with constant and parameter durations, String/Integer/Boolean, arrays, affine) under every option set within "
    "distance 1 of {cache} (10 simplification switches, 5 other options, eliminable_variable_expression, two-option sets); "
    "thorough adds {codegen} sets (compiled shared libraries). The model returned by the compiling call and the "
    "CachedModel returned by the next call are reduced to names/order/shapes/Python types, every attribute at 2 parameter "
    "points, outputs, delay states, alias relation, exposed delay arguments and the four functions at 2 points, and compared.",
    "Fixed model families; 2 grid points; a case only counts when the second call really loaded the cache.",
)

reg(
    "C20",
    "E1-bfs",
    "model_checking",
    "explicit-state BFS over edit / option / version / transfer_model histories with a logical mtime clock",
    "All histories up to length 5 (quick) / 7 (thorough) over: real transfer_model; rewrite Main.mo, Part.mo (second file in "
    "the model folder) and the library file with variants A|B; add unrelated files to either folder; switch between "
    "single-switch option sets (4 / 10); switch the pymoca version; (thorough) switch cache/codegen. Every edit gets the "
    "next tick of a logical clock as mtime. Every transfer_model result must equal _compile_model of the current sources "
    "and options, and a cache that was loaded must have been written for the current version and options.",
    "mtime granularity is the logical tick; the premise 'edits are later than the cache' is built into the alphabet; "
    "mtime_check=False and re-pointing library_folders at older files are outside the property.",
)

reg(
    "C21",
    "E3-crash",
    "fault_enumeration",
    "every prefix of the recorded cache-file bytes as crash state + preemption-bounded schedules of two transfer_model callers",
    "The bytes the real save path writes are recorded; the cache file absent, empty and cut at every byte offset is "
    "classified through load_model, and the full transfer_model is run and compared with a fresh compile on every write "
    "boundary, every 64th byte and one representative per loader outcome class (thorough: every byte), followed by a "
    "second call. Two real transfer_model callers on one folder (no cache; stale cache) are explored at the cache-file "
    "seams (getmtime, open, three write chunks, close, pickle.load) for all schedules with <= 2 (thorough 3) preemptions; "
    "both results and a later sequential call must equal a fresh compile and nothing may raise.",
    "A crash leaves a prefix of the single cache file (no torn sectors inside it); codegen artefacts are not "
    "crash-enumerated; one model.",
)

reg(
    "C26",
    "E4-enum",
    "exploration",
    "full product of command lines over a fixture tree through tools.compiler.main, reference counting function + library-API oracle per model",
    "Every invocation in the product of PATH subsets (size <= 2 quick / all 127 thorough) of {two good files, two files "
    "with a syntax error, a missing path, an empty directory, a directory holding the good files} x -m sequences of "
    "length 0..2 (3 thorough) over {two valid models, a class that fails to flatten, an unknown class} x -t {none, sympy, "
    "casadi} x -o {directory, missing, a file} x -O {none, a=b, malformed} is run through the real tools.compiler.main in "
    "process; the return value / SystemExit code must equal the reference count (argparse errors => 2; else usage "
    "errors; else 1 for no files or the number of files with syntax errors; else one per requested model that fails "
    "when the same request is made alone through the library API on fresh state).",
    "One fixture tree; quick varies -o / -O only on single-path, <= 1 model invocations (usage errors short-circuit "
    "everything else in main); log text is not compared; in-process main(), so interpreter start-up and the console "
    "script wrapper are not covered.",
)

reg(
    "C07",
    "E4-enum",
    "exploration",
    "every subset of <= k feature deviations from a base hierarchy, compared with a reference flattener",
    "A base library Leaf / Mid / Top (two instances of one class, three levels, equations over own and sub-component "
    "variables) and every subset of <= 2 (quick) / <= 4 (thorough) of 38 feature deviations -- more instances, extends "
    "chains of length 1-3, two extends, inherited class-typed components and initial equations, classes found in an "
    "enclosing package, a nested class as component type (also one that inherits from a class of the enclosing scope and holds a component of an extending class, instantiated once or twice), input / output members declared with alias types, type aliases of Real / Integer / Boolean, arrays of scalars "
    "(subscripts and a for-equation), parameter / constant / discrete / input / output on a variable at every level, "
    "references to sub-sub-components, depth 4 -- are printed from our own hierarchy AST, flattened by the real "
    "tree.flatten and compared with vf.ref.flat: exactly one flat variable per elementary leaf named by its dotted path, "
    "its type, prefixes (input / output only at the top level), dimensions and declaration attributes, and the "
    "multisets of equations and initial equations with every reference renamed to the flat name it denotes.",
    "Equation order is not compared; a binding equation of a non-parameter variable counts as an equation on both sides; "
    "flow variables outside connectors, arrays of components, redeclare / inner / outer and imports are outside the "
    "alphabet; trusted base: the 150-line reference flattener vf/ref/flat.py.",
)

reg(
    "C08",
    "E4-enum",
    "exploration",
    "level subsets x spellings x scoped expressions of one modified item, compared with a reference flattener (outer wins)",
    "One modified item (a parameter value; start, min, max, nominal, fixed, unit) 1-2 (thorough 1-3) component levels "
    "deep, with every subset of <= 3 (thorough: all; <= 4 at depth 3) of the levels that can modify it -- type definition, "
    "declaration, enclosing components of the declaring hierarchy, an inner and an outer extends clause (two-level extends "
    "chain), enclosing component, the component above it -- each present level carrying a value that identifies it; the expression of one level (or none) is a name "
    "q that exists with a different value in every class, so the scope of resolution shows; every dot / parenthesis "
    "spelling of the links of one level (thorough: two levels) with the others in a.x(start = v) style. A program is "
    "either rejected by pymoca or its flat model equals the reference (winner = outermost level, expression resolved "
    "where written) in every variable, attribute and equation; accepted members of a spelling group must agree.",
    "Rejection (any exception) is accepted for every spelling, as the statement allows; a variant names the class of the "
    "modified component like the class that contains it (scopes must be told apart by class, not by short name); redeclare, each, array-valued "
    "and final modifications are outside the alphabet.",
)

reg(
    "C09",
    "E4-enum",
    "exploration",
    "every connect-clause sequence up to n over all ordered endpoint pairs; exact rational row-space equality with reference connection sets",
    "Every sequence of <= 3 (quick; thorough 4) connect clauses over all ordered pairs of 5-7 endpoints (connectors of "
    "sub-components = inside, top-level connectors = outside) with a (v, flow i) connector, <= 2 (3) clauses with two "
    "potentials and two flows and with a parameter in the connector, and <= 2 (3) clauses on a model whose component "
    "connects its own connector to a sub-component inside (the same connector inside at one level, outside at the "
    "other). The flat equations are read as linear forms and compared by exact rational row-space equality with the "
    "reference: union-find connection sets over (connector, inside/outside), potential equalities, flow sums with "
    "inside + / outside -, zero for flows in no connection; the flat variables must be exactly the connector "
    "variables with their prefixes (no connector symbol survives).",
    "Connector names are chosen so that one flat name is a proper prefix of another (c1.p / c1.p2, t / t2). Scalar connector variables (arrays of connectors: see the array family below; no expandable / stream connectors); self-connections "
    "connect(a, a) are outside the alphabet.",
)

reg(
    "C04",
    "E4-enum",
    "exploration",
    "bounded-exhaustive enumeration of class texts from a feature grammar, oracle = the generator's own record of what it printed, plus in-place mutation probes for shared objects",
    "Class texts are built from a 32-feature grammar (class kind; flow/stream x discrete/parameter/constant x input/output; type Real/"
    "Integer/Boolean/local class/dotted name; clause subscripts; 1-3 declarators each with own subscripts, value (=, := , expression, "
    "array), class modification (one, two, each, nested, dotted), comment (plain, concatenated), annotation; 14 section layouts x position "
    "of the clause; neighbouring clauses; nested classes (model, same names, two levels, connector, function, short class) x position; "
    "extends (plain, modified, nested modification, modification naming a declared component, two, component redeclaration) x position; "
    "imports (qualified, renamed, list of 2 / 3, wildcard, two wildcards, all); a repeated declarator in the same clause / a later or "
    "earlier clause / another section; sibling top-level class with the same names; equation shapes; within). Every vector within <= 2 "
    "(quick: 7021 vectors) / <= 3 (thorough: 260411) deviations of the base class is generated, plus the full product of section order "
    "(every sequence of <= 3 / <= 4 sections out of public, protected, equation, initial equation, algorithm, initial algorithm after "
    "the unlabelled list) x {1,2,3} declarators or items per section, plus each section emptied in turn (1762 / 12130 texts). One walker "
    "prints the generator's class model, a second one records what a faithful parse contains; pymoca's tree is compared with it, class "
    "by class: each component once with name, type, prefixes, evaluated dimensions (own subscripts, then the clause's), visibility of "
    "its section, strictly increasing order, comment, modifications / value evaluating to the printed values; the four equation / "
    "statement lists in source order; nested classes, extends and imports on the declaring class and nowhere else; a repeated name "
    "must be rejected. Then every symbol's prefixes, dimensions, type and class_modification are mutated in place in turn and all other "
    "symbols must be unchanged.",
    "Visibility follows pymoca's own convention (unlabelled list -> Visibility.PRIVATE). Dimensions are compared as the flattened "
    "sequence of evaluated subscripts, not by list nesting. Only the shipped generated parser is a subject. Not compared / outside "
    "the alphabet: element prefixes final/inner/outer/replaceable, conditional components, each/final flags of modifications, extends "
    "visibility, class comments and annotations (present as noise only), enumerations, when-equations, redeclare other than a "
    "component redeclaration inside an extends modification. The aliasing probe mutates the objects pymoca copies per declarator "
    "(not the inner subscript list that the declarators of `Real[3] a, b` share). Trusted base: the printer and the record walker in "
    "vf/checks/c04.py, vf.ref.expr for values.",
)

reg(
    "C25",
    "E4-enum",
    "exploration",
    "bounded-exhaustive flat / one-level nested models through the real XML generator; output re-parsed with expat and "
    "compared node for node with our own AST under an explicit spelling table and with a parallel walk over pymoca's flat tree",
    "Every well-typed expression shape with <= 2 (quick) / 3 (thorough) operator nodes over unary - + not, binary + - * / ^ "
    "< <= > >= == <> and or, calls of 1-3 arguments (sin cos / max min / semiLinear), der(variable) and String == <>, with the "
    "leaves bound left to right through a cycle of every leaf kind (continuous / discrete / parameter / constant / Integer / "
    "Boolean variable, time, Real / Integer / Boolean / String literal) at every rotation of the cycle, 12 equations a model, "
    "every third numeric expression on the left-hand side; all one-operator expressions with every leaf in every operand "
    "position and 28 call names; 15 number spellings, both Booleans and 9 strings (XML metacharacters, non-ASCII, empty) as "
    "operands and as start / value; the full product type x variability x start x value x fixed of declarations (+ attribute "
    "order, String, alias of a builtin, input / output); one-level nested models (class A with every shape with <= 1 / 2 "
    "operator nodes, 1-2 instances, 5 modifications, 3 outer equations); single-branch when-equations (every Boolean shape "
    "with <= 1 / 2 nodes as condition, bodies with equations and reinit). 993 models / 7.7e3 flat equations quick, 15730 "
    "models / 1.2e5 flat equations thorough. The XML text is parsed with xml.etree (well-formed), component elements are "
    "matched one to one with the flat variables (name, builtin type, variability, start / value items by meaning), the "
    "children of <equation> one to one and in order with the flat equations, every expression element node for node "
    "(operator name, number and order of operands, literal values, variable names).",
    "Reported only when the XML differs from both our reading of the source and pymoca's own flat tree (XML == flat tree "
    "but != our reading is a parser / flattener matter and is counted as upstream_disagreements: 0 observed). Not judged: "
    "the element tag of a literal (every literal is <real value=str(v)/>, Boolean true is value=\"True\"), operator-vs-apply, "
    "component order, presence of `fixed` (only a fixed item contradicting the declaration is reported). Outside the subset "
    "(rejected by the backend or not representable): if-expressions, arrays, for/if-equations, elsewhen, initial equations, "
    "annotations, user functions, signed literals as attribute values (rejection tolerated). Trusted base: the 40-line "
    "spelling table + readers in vf/checks/c25.py.",
)

reg(
    "C18",
    "E4-enum",
    "exploration",
    "bounded-exhaustive program enumeration, differential: expanded vs unexpanded CasADi model under the check's own renaming",
    "Every program within <= 2 (quick) / 3 (thorough) feature deviations from a per-category base program (subject array x of "
    "each category algebraic / state / input / parameter / constant; deviations over 17 shapes and paths -- 1-D n=1..3, 2-D up to "
    "2x3, component arrays holding scalars and arrays, arrays in scalar components, two-level nesting --, start/min/max/nominal "
    "in 12 forms (each / array literal / DM / MX / array parameter / component parameter / component-level modification), fixed, "
    "value form, output, equation form (whole array, per element, rows and slices, for-loop, initial), der form, delay form "
    "(whole array, inside a for-loop, one element), Integer, neighbours) is generated by the real backend without expand_vectors "
    "and with it (expand_mx off and on). The expanded model must be the unexpanded one renamed by the check's own namer "
    "(1-based indices at the path element that declares the dimension): groups in place and row-major, attribute element (i,j) on "
    "scalar (i,j) (MX attributes evaluated as functions of the parameters at 2 grid points), outputs, delay states and delay "
    "arguments, dae and initial residual entry by entry at grid points with a distinct value per element; an exception raised only "
    "by the expansion is a violation. 7355 programs quick, 101231 thorough.",
    "The unexpanded model is the reference for groups, attribute values and residuals (differential); programs the unexpanded "
    "backend rejects are not judged (none in the final alphabet). Order inside outputs / delay_states, python_type of the scalars, "
    "3-D+ arrays and the other simplification options are not covered; delay states are accepted as N[i] or N[i,1]. Values only on "
    "the grid. Two defect families are reported under fixed signatures (inner-array / component-parameter attribute in a component "
    "array), see known_findings / out/proposed.",
)

reg(
    "C14",
    "E4-enum",
    "exploration",
    "triangular-bijective model family x option sets near default / all-on; exact rational projection of the solution set vs the simplified residual's rows",
    "Models with one state, one input, parameters (one defined by an expression), a constant and n = 3 (thorough 4) algebraic "
    "unknowns, each defined from an earlier quantity by one of 19 forms (6 alias spellings, 6 constant assignments, 4 affine forms "
    "with constant factors, 2 if-else forms, and a neutral one): complete for <= 1 special form (every position, dependency pattern, "
    "state equation; every permutation of the equation list on the chain pattern), for every pair of special forms, and for every "
    "full-length chain over 6 core forms; under every set of the 13 simplification switches and eliminable_variable_expression within "
    "Hamming distance 1 of the default and of all-on (distance 2, thorough, on the core pairs) and 10 named sets elsewhere. The real "
    "generate + simplify runs on each; an exception or logged warning counts as reported failure. Otherwise, for affine models the "
    "decision is exact: every recorded elimination (signed alias pair, algebraic unknown turned constant with its value) must be a "
    "linear consequence of the original rows, and the projection of the original solution set onto the remaining coordinates must "
    "have the row space of the simplified residual's rows (read off the real function at 0 and unit vectors, affinity verified); for "
    "all models the recorded eliminations hold and the simplified residual vanishes with full-rank Jacobian at the unique solution "
    "for three (state, input) points.",
    "Parameter / constant values fed to the functions come from the reference, matched by name; reduce_affine_expression is judged on "
    "affine models only; models have no initial equations, arrays or delays (C16, C18, C12 cover those passes); numeric coefficients "
    "are recovered as rationals with denominators <= 10^6.",
)

reg(
    "C15",
    "E4-enum",
    "exploration",
    "same model family x option sets as C14; unknown/equation balance before vs after simplify and constructibility of the output functions",
    "The C14 enumeration (regular square models by construction, squareness checked before simplification) is run through the real "
    "generate + simplify; afterwards (#states + #algebraic states) - (#entries of the DAE residual) must be unchanged, states and "
    "derivative states must pair up, dae_residual_function, initial_residual_function and variable_metadata_function must be "
    "constructible and the DAE residual evaluable from the model's own variable lists (no dangling eliminated symbol).",
    "An exception raised by simplify() itself is not judged unless it names a dangling model variable (e.g. the crash of "
    "reduce_affine_expression applied twice under iterative_simplification trips over its internal vectors and is reported only "
    "in DESIGN.md); scalar variables only.",
)

reg(
    "C22",
    "E4-enum",
    "exploration",
    "exhaustive enumeration of delay() models over duration-symbol categories x placements x option sets through the real "
    "transfer_model, against a reference category table and reference evaluation of the delay arguments",
    "Models y = delay(expr, dur) on a fixed declaration header with two or three symbols of each category {literal, constant, "
    "parameter (valued, unvalued, expression-valued, array element), fixed input (scalar, element of an 'each fixed=true' array), "
    "free input (default, explicit fixed=false, array element), time, state (one of them with fixed=true), der(state), algebraic}: "
    "dur over every single symbol (21) and every ordered pair of categories joined by + and by * (185 durations quick, 329 "
    "thorough), expr in {x, 2*x+p, xv[2], whole vector xv} outside and {x, 2*xv[i]+p, xv[i]} (thorough: xv[i-1]) inside "
    "'for i in 2:3'; two-delay models over every ordered pair of single-symbol durations (9x9 quick, 21x21 thorough) x layouts "
    "{out/out, out/loop, loop/out, same loop, two loops} x 3 (thorough 9) expression pairs (thorough: also every two-symbol "
    "duration next to p / u in either position); each under the option sets default, expand_vectors, expand_vectors+expand_mx, "
    "detect_aliases, replace_constant_*, replace_parameter_*, reduce_affine_expression, unroll_loops=False (thorough: their "
    "combinations, expand_mx, replace_parameter_expressions alone). One transfer_model call (cache and codegen off) "
    "on a scratch folder per (model, option set): 14.2k quick, 341k thorough. Oracle: accepted iff every free symbol of "
    "every duration is a literal, constant, parameter or fixed input (category from our own declarations); for accepted "
    "models every source delay is linked to its delay state (perturbing the delay inputs and the target variable in the real "
    "DAE residual, or via the alias relation when the target was eliminated) and delay_arguments_function must return, at "
    "that state's position in model.delay_states, the reference value (vf.ref.mast.evn) of the source expression and duration "
    "on 3 grid points; delay states must be inputs, 2 outputs per delay state, no delay state without a source delay.",
    "Any exception counts as rejection of a should-reject model (ValueError from Model._post_checks is the documented one and "
    "is counted separately); any exception on a should-accept model is a violation. Durations are loop-invariant scalars: "
    "pv[i] or the loop index as a duration, nested delays, delays inside functions / if-equations, aliases that change a "
    "symbol's category (algebraic = fixed input), eliminate_constant_assignments, cache / codegen (C19) and arrays with "
    "element-wise fixed={..} are outside the alphabet. Finite grid. transfer_model parses through pymoca's default parse cache "
    "(worker-private folder).",
)

reg(
    "C24",
    "E4-enum",
    "exploration",
    "bounded-exhaustive expression trees / renamings / structural deviations; generated module executed with the real "
    "OdeModel (solver step stubbed) and compared with a reference classification and evaluator on a grid",
    "Three families of models are generated as text, compiled by pymoca.backends.sympy.generator.generate, the source is "
    "compiled and executed (real runtime.OdeModel, compute_fg stubbed) and the object is compared with a reference (own "
    "one-level flattener + vf.ref.mast evaluator). expr: every tree with <= 3 (quick) / 4 (thorough) operator nodes over "
    "+ - * / ^, unary minus, sin/cos/tan, der(x), leaves x v p c u time 2 (state, algebraic, parameter, constant, input, "
    "time, literal; rotating start, thorough: every start for <= 3 nodes) as right-hand side (<= 2 nodes also as "
    "left-hand side), printed with minimal and with full parentheses. names: base model (one variable per class + "
    "component a with a.b, a.k) with every assignment of <= 2 / 3 names of a pool (dict attributes and psi = pymoca's own "
    "clash list, Python builtins, their suffixed twins, a__b / a__b_ / a__k / a_b, x_, t) to distinct variables. struct: "
    "base model under every compatible set of <= 2 / 3 of 20 structural deviations (class absent / doubled, output that "
    "is a state, der inside an expression, component with input/output members, parameter without value / start only / "
    "negated literal, state start). Oracle: source compiles and instantiates; every eqs entry equals lhs - rhs of a flat "
    "equation on 3 / 4 grid points (symbols, derivatives and time substituted); x v c p u y hold exactly the flat model's "
    "states / variables (no prefix or non-state output) / constants / parameters / inputs / outputs; distinct variables "
    "and time are distinct symbols and distinct Python identifiers.",
    "Scalar Real models, literal (possibly negated) declaration values, one level of components, no connect; Python "
    "keywords (lambda, None, ...) and names the generated module uses itself (sympy, mech, self, sin, OdeModel, the class "
    "name) are not in the name alphabet; symbols are recognised by name with '.'/'__' identified and trailing "
    "underscores ignored (inside such a group every assignment is tried); list order, x0/p0/c0/u0 and compute_fg "
    "(sympy.solve) are not judged; finite grid, ill-conditioned or non-real points skipped.",
)

reg(
    "C27",
    "E4-enum",
    "exploration",
    "every split of generated package libraries into 2-4 files x every file order through Tree.extend, tools.compiler.parse_all "
    "and the CasADi api's directory walk, differential oracle against the unsplit one-file library",
    "A package library (package constant, nested package with its own constant, models using each other as component type / "
    "base class and the constants by dotted reference) is generated from a base plus every set of <= 1 (quick, 12 deviations) / "
    "<= 2 (thorough, 16 deviations) feature deviations: top-level model, class import, alias import used for a constant, import "
    "in the nested package, function, type alias, short class definition, constant as array dimension / start attribute, second "
    "nested package, third nesting level, nested package without own content, full instead of relative names, (thorough) "
    "component modification over a constant, encapsulated nested package, protected constant. For each library EVERY split into "
    "2-4 files is enumerated (every subset of nested classes moved out into `within` files, every set partition of the moved "
    "classes of one package and of the top-level classes into files, a package without own content optionally left to exist only "
    "as the `within` placeholder; a package's own file keeps its constants and imports) and for each split EVERY permutation of "
    "the files is merged by the real code: parser.parse + Tree.extend (first tree receives the rest); tools.compiler.parse_all on "
    "a directory (file names assigned against the discovery order observed from list_modelica_files, so that the order visited is "
    "the permutation; verified from parse_all's return value) and on an explicit file list; api.transfer_model -> _compile_model's "
    "os.walk over a private model folder (same naming trick) and over model folder + one library folder per file, cache off. "
    "For every class of the library the canonical flat model (pymoca.tree.flatten, JSON form, symbols by name) or the exception "
    "type, resp. the generated CasADi model (variables by name with group / type / shape / attributes, DAE and initial residual at "
    "3 grid points), must equal that of the unsplit library; a disagreement is classified as order-dependent or "
    "differs-in-every-order. quick: 13 libraries, 797 splits, 9916 distinct file orders (base and base+top-level-model through all "
    "five routes, the other libraries through Tree.extend), 13460 ordered merges, 81712 class evaluations; thorough: 137 libraries, "
    "14750 splits, 214336 distinct file orders, 667504 ordered merges, 4.78e6 class evaluations.",
    "The reference is pymoca itself on the unsplit text (the statement is metamorphic); independent of it only: every constant a "
    "model of the unsplit library reports must carry the value our generator declared (alphabet sanity). Compared by meaning: the "
    "per-file declaration counter `order` is dropped, variable order inside a CasADi group is not compared. Constants are referenced "
    "by dotted names only (pymoca does not resolve an unqualified reference to an enclosing package's constant); package "
    "inheritance, `within` naming a non-package, classes cut in two and duplicate definitions are excluded. Flattening / generation "
    "is skipped for a merged tree whose complete structural dump (dict orders included, parent pointers verified consistent) equals "
    "that of a tree already evaluated in the same worker; merging itself is always executed. The api's parse cache is the worker's "
    "private one; on an edited tree pymoca.__version__ is pinned to a clean synthetic value so that the same cache path runs.",
)

reg(
    "C16",
    "E4-enum",
    "exploration",
    "bounded-exhaustive alias trees x attribute sets against a signed union-find + merge reference",
    "Every alias tree over v1..vn (every labeled tree, both orientations of every link, link forms `a = b`, `a = -b`, "
    "`a - b = 0`, `a + b = 0`, every order of the equation list; v1 a state / algebraic / input, the rest algebraic) crossed "
    "with every set of <= k explicit attributes (min, max, nominal from 2-value grids, fixed false/true, start numeric / 0 / "
    "parameter p) placed anywhere on the variables; generated and simplified as _compile_model does (generate + "
    "simplify({'detect_aliases': True})).  Reference: signed union-find of the written equations; the surviving variable "
    "is read from the model; its min/max (sign-swapped intersection), nominal (largest), fixed (any), start (own kept, "
    "else some alias's, sign-adjusted) are compared on the Variable and in variable_metadata_function; alias_relation, "
    "canonical_signed and Variable.aliases are compared with the union-find (membership and signs).  "
    "quick: n=2 full structures x <=2 attributes; n=3 full structures x <=1 attribute; n=3 plain forms, one equation "
    "order x 2 attributes (85 584 programs).  thorough: n=2 full x <=3; n=3 full x <=2, plain x 3; n=4 full x 0, plain forms in "
    "one order x 1, basic (tree x signs) x 2 and x 3 (2 091 024 programs).  The per-level table is in the evidence (`levels`).",
    "The survivor is not prescribed; with several explicit alias starts any is accepted; a class mixing explicit and absent "
    "nominals may report max(explicit) (absent = 0, pymoca's convention, test_simplify_alias_small_nominal) or "
    "max(1, explicit) (Modelica default); one state-or-input per class at most; attributes are literals or one parameter; "
    "completeness of alias *detection* is not demanded (C14/C15), only counted.  n=4 with >= 2 attributes is complete only "
    "over the reduced structure sets named in the evidence.",
)

CHECKS["C11"]["text"] = (
    'Complete families of single-class models -- all scalar expression trees with <= 2 (quick) / 3 (thorough) '
    'operators as right-hand sides, array equations, every valid subscript and slice of small 1-D/2-D arrays on '
    'either side, for-equations (plain, shifted, sub-range, parameter bound, der), if-equations with elseif, '
    'initial equations, der as independent input, functions with <= 2 / 3 statements (assignment, if, for; '
    'protected temporaries; several outputs); if / elseif / else chains with every ordered selection of 2..3 '
    'conditions from {>, <} (thorough also >=, <=) x thresholds {1,2,3} on one variable as function if-statement, '
    'if-equation, nested if-expression and elseif-expression, evaluated inside every region between the thresholds '
    'and on every threshold; all well-shaped matrix expression trees with <= 2 / 3 operators (unary -, + - .* ./, '
    'matrix product, transpose, scalar factors) over 2x2 .. 3x3 matrices and 2-/3-vectors as right-hand sides, also '
    'as der() equation, initial equation and with sides exchanged, shaped zeros/ones/fill, matrix if-expressions, '
    'every row/column slice on the left and on both sides, square matrix ^ 0..3 and elementwise .^ -- are generated '
    'and dae_residual_function / initial_residual_function are compared per top-level equation with lhs - rhs under '
    'the reference semantics (Booleans 0/1, and = product, or = sum, 1-based inclusive indexing) on 4 / 8 grid '
    'points including a tie point (chains: 7 pinned points).'
)

CHECKS["C11"]["note"] = (
    'Finite grid; a plain equation between equal shapes is compared element by element in column-major order, '
    'entries of for-equations, if-equations and tuple equations as a multiset; array constructors with variable '
    'elements, literal matrices, matrix + scalar without dot, vector*matrix, vector*vector, identity / diagonal are '
    "outside the alphabet (pymoca rejects them or they are not in the statement's list)."
)

CHECKS["C21"]["technique"] = (
    'every prefix of the recorded file-system operations (and every byte prefix of every write) as crash state + '
    'preemption-bounded schedules of two transfer_model callers at every file-system operation in the model folder'
)

CHECKS["C21"]["text"] = (
    'Every file-system operation on any path in the model folder (open, write pieces, truncate, close, '
    'replace/rename/link/remove/unlink/mkdir/utime, stat, scandir/listdir, reads), by whichever module, is '
    'intercepted process-wide. Crash half: for two initial folder states (no cache; complete but stale cache) the '
    'mutating operations of one real transfer_model are recorded; the folder after every prefix of that sequence '
    'and after every byte prefix of every write is re-created and classified through load_model; the full '
    'transfer_model is run twice and compared with a fresh compile on every operation boundary, bytes 1, 2, n-1 and '
    'every 64th of each write and one representative per loader outcome class (thorough: every state). Schedule '
    'half: two real transfer_model callers on one folder (no cache; stale cache) with a scheduling point before '
    'every such operation (writes in three pieces; reads of the unmodified sources excepted) for all schedules with '
    '<= 2 (thorough 3) preemptions; both results and a later sequential call must equal a fresh compile and nothing '
    'may raise.'
)

CHECKS["C21"]["note"] = (
    'A crash leaves the effects of a prefix of the operations issued, the last write cut at any byte (process '
    'death: no power-loss reordering of un-fsynced data, no torn sectors); callers are threads with os.getpid, '
    'tempfile names and uuid1/uuid4 virtualised per caller; one read call is atomic; codegen artefacts are not '
    'crash-enumerated; one model.'
)

CHECKS["C23"]["text"] = (
    'For 1-D arrays of size 1..3 every subscript in [-1, n+2] (both sides of an equation), every slice lo:hi over '
    'the window with a sized and a shape-agnostic consumer, every for-loop lo:hi over the window with x[i], x[i+1], '
    'x[i-1]; for 2x2 / 2x3 matrices every (i,j), (i,:), (:,j) (thorough: A[i, lo:hi]); subscripts on scalars. '
    'Loop-variable subscripts f(i): for every non-empty loop 0 <= lo <= hi <= n+2 every affine f = c0 + c1*i, c1 in '
    '{-2,-1,1,2}, with the first evaluated index anywhere in [-1, n+2], and every (i-m)*(i-m)+c / c-(i-m)*(i-m) '
    'with the vertex m in lo..hi and c in [-1, n+2] -- ascending, descending (x[n+1-i]), stepping over 0, extreme '
    'in the middle of the sequence -- as b*i = x[f] and x[f] = b*i on x[n], n = 1..3 (thorough 1..4), as the row '
    'and as the column subscript of A[2,3] and A[3,2] with the other subscript every valid constant (thorough: also '
    '2x2, 3x3, both sides, A[f,:] / A[:,f] under sum), and with size, upper loop bound and subscript written '
    "relative to an Integer parameter (Real x[n]; for i in lo:n+k; x[n+k'-i]). Stepped ranges x[lo:st:hi] and for i "
    'in lo:st:hi, st in {1,2} (thorough 3), against the explicit element list. 12.9k programs quick, 67.9k '
    'thorough. The reference decides in/out of range: in range must generate and select exactly those elements (3 '
    'grid points, distinct element values), out of range must raise from generate() or residual construction.'
)

CHECKS["C23"]["note"] = (
    'Arrays up to size 3 (thorough 4) and window +-2; empty ranges (hi < lo) are legal and not judged; a stepped '
    'slice whose stop lies beyond n while its last element does not (x[1:2:4] of x[3]) may be rejected. The start '
    'of a for range is a non-negative literal and a step a positive literal (pymoca reads both with .value: '
    'anything else raises for every model); subscripts through an Integer array (x[k[i]]), if-expressions / div / '
    'mod in a subscript, A[i,i], 3-D arrays and nested component arrays are not in the alphabet.'
)

CHECKS["C10"]["technique"] = (
    'exhaustive enumeration of variable configurations (singles, ordered pairs, triples) and of der() argument '
    'trees against a reference classification'
)

CHECKS["C10"]["text"] = (
    'Every single configuration of variability x causality x type (Real, Integer, Boolean, String, and the derived '
    'types VR = Real(unit), VI = Integer(min), VB = Boolean) is generated; a Real variable additionally with every '
    'der() placement = site (side of an equation, inside a larger expression, initial equation only) x every '
    'argument tree with <= 2 (thorough: 3) operator nodes over + - * and unary minus x every leaf position of the '
    'variable (81 / 928 trees; other leaves helper variables, thorough also literals); every model also contains a '
    'component with a sub-component, each with plain / input / output members of the plain and the derived types '
    'and parameter / constant members; der() on a nested member: level 1 / 2 x written at the top with dotted names '
    "/ in the component's own equations / in its own initial equations x all trees (plain Real member) or one tree "
    'per shape and position (input / output / derived-type members; thorough: all <= 2-operator trees); every '
    'ordered pair of 24 (thorough: 56) core configurations, each also with three nested placements (thorough: plus '
    'all triples of the Real none/der(v) ones). Each variable must sit in exactly the list the precedence constant '
    '> parameter > top-level input > differentiated > algebraic assigns (differentiated = occurs anywhere inside a '
    'der() argument; input / output never count on component members), String ones in the string lists, one '
    'der_state per state in matching order, declaration order within a category among the variables of each class '
    '(names chosen so that it differs from name order), outputs exactly the top-level output-prefixed '
    'states/algebraics, Integer/Boolean python types kept also through derived types, and every symbol object the '
    'equations and initial equations depend on is time or a listed variable. Quick 2524 models, thorough 24350.'
)

CHECKS["C10"]["note"] = (
    'Scalar variables; flow/stream prefixes, arrays, der() of parameters / constants / discrete / Integer '
    'variables, division, powers and function calls inside der() are outside the alphabet. der(u) of a top-level '
    'input u leaves an unlisted der(u) symbol in the equations (the statement classifies u as input and is silent '
    'about its derivative): not demanded.'
)

CHECKS["C12"]["technique"] = (
    'all 8 option settings x every loop/function/delay model and every pair of loop-subscript forms, differential '
    'comparison with the default setting and with the reference evaluator'
)

CHECKS["C12"]["text"] = (
    'Every for-equation and function model of the C11 families, loop-with-call, delay and delay-in-loop models, and '
    'the loop-index families -- a loop over 2:n (n an Integer parameter) whose body references one array through 1 '
    'or 2 subscripts, every ordered pair of the 10 forms v, v+1, v-1, 2*v, n+1-v, v*v, v*(v+1)/2, f(v), f(v)+1, '
    'f(v)-1 (f a user function of Integer type), as x[v] = y[A] + 2*y[B] with 1..4 iterations and, with 2 and 4 '
    'iterations, as y[A] = ..., der(y[A]) = ..., inside a Real function call and in a for-statement of a function '
    '(1392 models quick; thorough 11892: also lower bound 1, all lengths, 2-D arrays by row and by column, initial '
    'for-equations, the loop nested in an outer loop, a non-linear f, every ordered triple of forms) -- is '
    'generated and simplified under all 8 settings of (unroll_loops, inline_functions, expand_mx); variable names, '
    "order, shapes, Python types, attribute values, outputs and delay states must equal the default setting's, the "
    'residual, initial-residual, metadata and delay-argument functions must agree with it on 3 grid points, and the '
    "residuals of every setting must equal the reference evaluator's per top-level equation (all models but the "
    'delay ones).'
)

CHECKS["C12"]["note"] = (
    "Differential oracle plus C11's reference evaluator (so a fault shared by the default or by all settings in the "
    'loop-subscript alphabet is seen too); finite grid of all-distinct values; nested loops only in the subset '
    'pymoca generates (subscripts of the inner variable; outer variable as value or plain subscript); subscripts '
    'kept inside 1..26 by construction.'
)

CHECKS["C26"]["text"] = (
    'Every invocation in the product of PATH subsets x -m sequences of length 0..2 (3 thorough) over {two valid '
    'models, a class that fails to flatten, an unknown class} x -t {none, sympy, casadi} x -o {directory, missing, '
    'a file} x -O {none, a=b, malformed} is run through the real tools.compiler.main in process. PATH alphabet '
    '(13): {two good files, two files with a syntax error, a missing path, an empty directory, a directory holding '
    'the good files} and the listed-but-unreadable entries {a directory holding a good file and a sub-directory '
    'named D.mo (itself a tree with one good file), a directory holding a good file and a dangling symbolic link '
    'L.mo, a directory holding a good file and a regular file N.mo that is not UTF-8, and D.mo, L.mo, N.mo given '
    'directly}; quick: all subsets of size <= 2 (7 293 invocations); thorough: all 127 subsets of the first seven '
    'and all subsets of size <= 3 holding an unreadable entry (372 255). The return value / SystemExit code must be '
    'an admissible count: argparse errors => 2; else usage errors (a dangling link given directly is a missing '
    'path); else 1 for no files or the number of files with parse errors (syntax error; not UTF-8; a listed entry '
    'that is no regular file); else one per requested model that fails when the same request is made alone through '
    'the library API on fresh state. An exception escaping main() is never a count.'
)

CHECKS["C26"]["note"] = (
    'One fixture tree; -o / -O are varied on single-path, <= 1 model invocations (thorough: also on every '
    'invocation over the first seven PATH letters) because usage errors short-circuit everything else in main; for '
    'listed *.mo entries that are no regular file (sub-directory, dangling link) the statement does not say whether '
    'they are files with a parse error or no Modelica files, so both counts are accepted (all such entries of one '
    'invocation read the same way); unreadable-by-permission files are not constructible as root and a symlink loop '
    'is not a separate letter (same OSError path as the dangling link); log text is not compared; in-process '
    'main(), so interpreter start-up and the console script wrapper are not covered.'
)

CHECKS["C02"]["text"] = (
    'All interleavings with <= 2 preemptions (quick) / <= 3 (thorough; 3 callers with <= 2) of 2-3 real parse() '
    'calls on one cache database that is absent, holds the text (hit with last-hit update; one hit and one miss), '
    'has a wrong layout or is corrupt -- each started from every per-process state of parse.initialized_dbs: '
    'attribute absent (first cached parse of the process), present without this database, present with it. Shared '
    'as threads (one parser module, one attribute: 3 states) and as processes (one parser module instance and one '
    "path alias per caller: every tuple of states up to the driver's caller symmetries; quick leaves out the tuples "
    "with two 'absent' or two 'other' callers). SQLite's own lock manager decides every BUSY; the shim turns a BUSY "
    "into an immediate error or a disabled thread by SQLite's documented rule, which is calibrated against the real "
    'library at the start of each run. Oracle: every call returns the uncached tree, none raises, no os.remove of a '
    'file another caller has open, database intact at the end (layout judged when the database was sound from the '
    'start or a caller new to it finished its check undisturbed).'
)

CHECKS["C02"]["note"] = (
    'Lock hold times << 5 s busy timeout (timeouts only at true deadlock); cyclic garbage of a finished caller is '
    'collected at once; the per-process state is the attribute parse.initialized_dbs only, written as the value a '
    'real first parse() leaves (measured per worker); texts the database does not hold are interchangeable '
    '(symmetry reduction of the per-caller states); callers that had all checked the database before it was damaged '
    'are not required to repair it; the free-running 16-process clause of the quantifier is sampling and not '
    'decided; known finding D5:removes-database-in-use is listed in known_findings.json.'
)

CHECKS["C19"]["technique"] = (
    'model families x option sets within distance 1 of {cache} / {codegen}, delay-duration sequences, and '
    'compile-change-recompile-load folder histories; every result vs a fresh compile in canonical form'
)

CHECKS["C19"]["text"] = (
    'Ten model families (parameter-dependent attributes, positive/negative alias chains, delay, delay in a loop, '
    'several delays, String/Integer/Boolean, arrays, an array first in every variable category, affine, minimal) '
    'bare and with a ballast block that adds a member with parameter-dependent attributes to every variable '
    'category (state, algebraic, fixed and free input, 2 constants, 3 parameters, String parameter and constant), '
    'under every option set within distance 1 of {cache} (10 simplification switches, 5 other options, '
    'eliminable_variable_expression, two-option sets); a delay-duration family: every sequence of 1 (x all option '
    'sets), 2 (x {cache}, +replace_constant_values, +replace_parameter_values) and, thorough, 3 delays over the 8 '
    'duration kinds = subsets of {constant, parameter, fixed input} the duration depends on; thorough adds '
    '{codegen} x 6 option sets per model (compiled shared libraries). The model returned by the compiling call and '
    'the CachedModel returned by the next call are reduced to names/order/shapes/Python types, every attribute at 2 '
    'parameter points, outputs, delay states, alias relation, exposed delay arguments and the four functions at 2 '
    'points, and compared. Folder histories on three two-folder models (model folder + library_folders): compile, '
    'one change out of {option, library source, model-folder source} (thorough: every sequence of <= 2), '
    "transfer_model (recompiles next to the old artefacts), transfer_model (loads); every call's result is compared "
    'with a compile of the current sources and options in a separate clean folder; {cache} for all three models, '
    '{codegen} for one model in quick and all three in thorough. 625 cases quick, 1359 thorough.'
)

CHECKS["C19"]["note"] = (
    'Fixed model families; 2 grid points; a case only counts when the call that should load really loaded the '
    'cache. An attribute given once for an array variable equals the same value per element. History edits follow a '
    'logical clock (every edit later than everything written before it). A stale artefact that is numerically '
    'identical (e.g. only the pymoca version changed) is not observable.'
)

CHECKS["C01"]["technique"] = (
    'explicit-state BFS over cache-event histories on a real cache folder (deviation-bounded), results edited in '
    'place by the caller + every prefix of a stored pickle'
)

CHECKS["C01"]["text"] = (
    "Every history of length <= 4 with <= 2 deviations (quick; thorough: 'wide' <= 4 with <= 3 over everything, "
    "'deep' <= 6 with <= 3 without the near-duplicates) over parse(OK1/OK2/BAD, expiration, always_update), parse "
    'of 8 near-duplicate texts (a base text with a multi-line / blank- / tab- / case- / accent-carrying string '
    'literal and its image under LF->CRLF, trailing-blank stripping, blank-run collapsing, tab expansion, '
    'lower-casing, accent change, NFD: different texts, different trees; all 56 ordered pairs), module reload, '
    'version change (incl. .dirty), clock jumps, entry faults (empty, truncated, garbage, class gone, other-version '
    'entry holding a different tree), layout faults and file faults is executed on the real parse() with the clock '
    'and version behind seams; every returned tree is compared node for node (types included) with the uncached '
    'parse of the same text, None iff syntax error; then the caller edits the returned tree in place (every '
    'reachable container and pymoca object) and keeps it, so a later result that shares an object with an earlier '
    'one differs; no row for the broken text, no None stored, .dirty leaves the folder untouched. Plus every 16th '
    '(quick) / every (thorough) prefix of the stored pickle, followed by two parses.'
)

CHECKS["C01"]["note"] = (
    'Deviation = fault, version change, clock jump or parse of a near-duplicate. Abstract state = database '
    'abstraction (layouts, metadata keys, rows with stored key, version, data hash, last_hit bucketed by the cut '
    'points parse() compares with) + initialised flag + version + results handed out per text in this process '
    '(0..2, wide search 0..3). One process and one folder (sharing is C02); process state is assumed to live in '
    'pymoca.parser (module reload = new process); near-duplicates with equal trees (outer blank lines, BOM, '
    'comments) cannot violate the statement and are left out; pickles that load to a foreign object under the '
    '*current* version are outside the alphabet.'
)

CHECKS["C13"]["technique"] = (
    'exhaustive enumeration of (variable kind x attribute x expression form) singles and pairs, and of all short '
    'event histories (read function / read variables / simplify(option)) on one Model object, against reference '
    'attribute values'
)

CHECKS["C13"]["text"] = (
    'append to the existing text "Histories: on 35 (thorough 55) models whose attributes depend on parameters with '
    'values, a free parameter and an expression parameter (plus a constant and an alias pair declared before the '
    'variable), every sequence of at most 3 (thorough 4) events from {read variable_metadata_function, read every '
    'Variable attribute, simplify(o)} -- o each of resolve_parameter_values, replace_parameter_expressions, '
    'replace_constant_expressions, replace_parameter_values, replace_constant_values, expand_vectors, '
    'detect_aliases that can change the model by the reference (thorough also replace_parameter_expressions + '
    'replace_parameter_values in one call) -- is applied to one Model object (14 079 / 259 195 histories); at every '
    'read and after the last event the variable lists, python types, every attribute of every listed Variable and '
    'every block of the metadata function (arity, shape, values at 3 parameter points, with the parameters the '
    'model has then) are compared with a reference state machine of what each option inlines / removes."'
)

CHECKS["C13"]["note"] = (
    'Finite parameter grid. '
    'Histories: a simplify() call that raises ends that history without a verdict (counted); attributes do not '
    'mention constants; the aliased pair has default attributes (no alias-merge rule assumed); '
    'eliminate_constant_assignments and eliminable_variable_expression are not among the events.'
)

CHECKS["C05"]["text"] = (
    'All sequences of flatten / CasADi / SymPy / XML requests (every class, with repetition) up to length 3 (quick) '
    '/ 5 (thorough) on one parsed tree are executed on the real code for 16 hand-written libraries (5 basic ones; '
    '11 in which one class is shared by users in different roles, one per construct whose handling can reach the '
    'parsed tree: dotted constant reference, extends, class redeclaration, redeclared package with constants, short '
    'class definitions / types, imports incl. the unqualified-import cache, function pull, connectors, '
    'enclosing-scope lookup, arrays / input-output components), every test model (flatten and CasADi only in quick) '
    'and 3 merges of test files with Tree.extend; each step must equal the same request on a fresh parse. States '
    'are structural fingerprints of the whole tree, so when no request changes the tree the search closes and the '
    'result holds for histories of any length by induction. All ordered pairs of -m requests through '
    'tools.compiler.main on the hand-written libraries are compared with the single requests.'
)

CHECKS["C05"]["note"] = (
    'Libraries are finite samples of the program space (the history quantifier is what is exhausted); results are '
    "compared as length+sha1 of pymoca's own JSON form of the flat tree / str(Model)+attributes / generated text; "
    'exception type only. Trees are parsed once per library and restored from pickle snapshots that are used only '
    "when their structural fingerprint equals the live tree's; the first difference per state and every replay use "
    'real parses only. Component redeclaration inside a modification is excluded (the parser raises).'
)

CHECKS["C01"]["technique"] = (
    'explicit-state BFS over cache-event histories on a real cache folder (deviation-bounded), results edited in '
    'place by the caller + every prefix of a stored pickle'
)

CHECKS["C01"]["text"] = (
    "Every history of length <= 4 with <= 2 deviations (quick; thorough: 'wide' <= 4 with <= 3 over everything, "
    "'deep' <= 6 with <= 3 without the near-duplicates) over parse(OK1/OK2/BAD, expiration, always_update), parse "
    'of 8 near-duplicate texts (a base text with a multi-line / blank- / tab- / case- / accent-carrying string '
    'literal and its image under LF->CRLF, trailing-blank stripping, blank-run collapsing, tab expansion, '
    'lower-casing, accent change, NFD: different texts, different trees; all 56 ordered pairs), module reload, '
    'version change (incl. .dirty), clock jumps, entry faults (empty, truncated, garbage, class gone, other-version '
    'entry holding a different tree), layout faults and file faults is executed on the real parse() with the clock '
    'and version behind seams; every returned tree is compared node for node (types included) with the uncached '
    'parse of the same text, None iff syntax error; then the caller edits the returned tree in place (every '
    'reachable container and pymoca object) and keeps it, so a later result that shares an object with an earlier '
    'one differs; no row for the broken text, no None stored, .dirty leaves the folder untouched. Plus every 16th '
    '(quick) / every (thorough) prefix of the stored pickle, followed by two parses.'
)

CHECKS["C01"]["note"] = (
    'Deviation = fault, version change, clock jump or parse of a near-duplicate. Abstract state = database '
    'abstraction (layouts, metadata keys, rows with stored key, version, data hash, last_hit bucketed by the cut '
    'points parse() compares with) + initialised flag + version + results handed out per text in this process '
    '(0..2, wide search 0..3). One process and one folder (sharing is C02); process state is assumed to live in '
    'pymoca.parser (module reload = new process); near-duplicates with equal trees (outer blank lines, BOM, '
    'comments) cannot violate the statement and are left out; pickles that load to a foreign object under the '
    '*current* version are outside the alphabet.'
)

CHECKS["C25"]["text"] += (
    " In addition, on a fixed sub-sample of the models, histories on one parsed tree: generate, then every sequence of 1-2 "
    "(thorough 1-3) in-place edits (add a variable with its equation, drop the first equation, change a parameter value) with a "
    "generate after each; every XML must equal the XML of a fresh parse that carries the same edits (differential oracle)."
)

CHECKS["C02"]["text"] = (
    'All interleavings with <= 2 preemptions (quick) / <= 3 (thorough; 3 callers with <= 2) of 2-3 real parse() '
    'calls on one cache database that is absent, holds the text (hit with last-hit update; one hit and one miss), '
    'has a wrong layout or is corrupt -- each started from every per-process state of parse.initialized_dbs: '
    'attribute absent (first cached parse of the process), present without this database, present with it. Shared '
    'as threads (one parser module, one attribute: 3 states) and as processes (one parser module instance and one '
    "path alias per caller: every tuple of states up to the driver's caller symmetries; quick leaves out the tuples "
    "with two 'absent' or two 'other' callers; the 3-caller driver runs the uniform tuples and those with one "
    "caller of each state). SQLite's own lock manager decides every BUSY; the shim turns a BUSY into an immediate "
    "error or a disabled thread by SQLite's documented rule, which is calibrated against the real library at the "
    'start of each run. Oracle: every call returns the uncached tree, none raises, no os.remove of a file another '
    'caller has open, database intact at the end (layout judged when the database was sound from the start or a '
    'caller new to it finished its check undisturbed).'
)

CHECKS["C02"]["note"] = (
    'Lock hold times << 5 s busy timeout (timeouts only at true deadlock); cyclic garbage of a finished caller is '
    'collected at once; the per-process state is the attribute parse.initialized_dbs only, written as the value a '
    'real first parse() leaves (measured per worker); texts the database does not hold are interchangeable '
    '(symmetry reduction of the per-caller states); callers that had all checked the database before it was damaged '
    'are not required to repair it; the free-running 16-process clause of the quantifier is sampling and not '
    'decided; known finding D5:removes-database-in-use is listed in known_findings.json.'
)

CHECKS["C06"]["technique"] = (
    'explicit-state BFS over deepcopy/edit/observe interleavings on up to 3 live trees, differential oracle against '
    'fresh parse + own edits through the same route'
)

CHECKS["C06"]["text"] = (
    'All histories up to length 3 (quick) / 4 (thorough) with <= 2 / 3 deviations (edit or observation events; <= 2 '
    'edits, <= 2 observations) over deepcopy of any tree, add/remove symbol/equation/class on a component-type '
    'class, a base class and the top model, and observation of every class of a live tree through tree.flatten in '
    'place / the SymPy backend / the XML backend (checked, and kept in the history, so later copies and edits act '
    'on observed trees), on up to 3 trees (copies of copies included). After every copy or edit every tree is '
    'observed on a replay of its own -- flatten of a deep copy, every route an earlier observation used, thorough: '
    "in place always -- and must equal a fresh parse carrying exactly that tree's own edits observed through the "
    'same route. 2835 transitions quick, 42841 thorough.'
)

CHECKS["C06"]["note"] = (
    'One library (component types + extends + modifications); edits through the public AST API only; the expected '
    'result uses the same AST API and the same route on a never-copied fresh parse (computed before the '
    "exploration), so defects of add_/remove_ or of a backend's rendering themselves are not seen. Observation "
    'events observe all classes of a tree in a fixed order (final observations in the reverse order); single-class '
    'observation events and imports are not in the alphabet. State kept outside the trees is not reset between '
    'replayed histories of a worker.'
)

CHECKS["C18"]["technique"] = (
    'bounded-exhaustive program enumeration, differential: expanded vs unexpanded CasADi model (same other options) '
    "under the check's own renaming"
)

CHECKS["C18"]["text"] = (
    'Every program within <= 2 (quick) / 3 (thorough) feature deviations from a per-category base program (subject '
    'array x of each category algebraic / state / input / parameter / constant; deviations over 17 shapes and paths '
    '-- 1-D n=1..3, 2-D up to 2x3, component arrays holding scalars and arrays, arrays in scalar components, '
    'two-level nesting --, start/min/max/nominal in 12 forms (each / array literal / DM / MX / array parameter / '
    'component parameter / component-level modification), fixed, value form, output, equation form (whole array, '
    'per element, rows and slices, for-loop, initial, x assigned a constant array / zeros, w = x, w = -x, x = w), '
    'der form, delay form (whole array, inside a for-loop, one element), Integer, neighbours) is generated by the '
    'real backend without expand_vectors and with it (expand_mx off and on). The expanded model must be the '
    "unexpanded one renamed by the check's own namer (1-based indices at the path element that declares the "
    'dimension): groups in place and row-major, attribute element (i,j) on scalar (i,j) (MX attributes evaluated as '
    'functions of the parameters at 2 grid points), outputs (every output that is a variable of the unexpanded '
    'model, in whatever group), delay states and delay arguments, dae and initial residual entry by entry at grid '
    'points with a distinct value per element; an exception raised only by the expansion is a violation. The same '
    'comparison, same options on both sides, under each single other simplification switch that moves, removes or '
    'rewrites variables (eliminate_constant_assignments, replace_constant_values, replace_parameter_values, '
    'replace_parameter_expressions, replace_constant_expressions, resolve_parameter_values, detect_aliases, '
    'eliminable_variable_expression) on the programs the switch acts on, within <= 2 / 3 deviations (1 / 2 for the '
    'three switches that act on every parameter or constant); thorough: every pair of switches one deviation lower. '
    '8294 programs and 10397 program x option-set combinations quick, 121620 and 178253 thorough.'
)

CHECKS["C18"]["note"] = (
    'The unexpanded model under the same options is the reference for groups, attribute values and residuals '
    '(differential); programs the unexpanded backend rejects are not judged (none with default options; 54 quick / '
    '2487 thorough under a switch: list-of-expression bounds on aliased arrays, nested-list values under '
    'replace_*_values). A switch is only applied where it acts on whole arrays: on element equations (for-loops, '
    'slices, delays in loops) alias detection / elimination legitimately find more after an early expansion; '
    'inner-array values inside component arrays are excluded under the value-replacing switches because the '
    'unexpanded model itself is wrong there. Order inside outputs / delay_states, order inside the groups under '
    'another switch with expand_mx, outputs whose variable the options removed, python_type of the scalars, 3-D+ '
    'arrays, factor_and_simplify_equations / reduce_affine_expression and three or more switches are not covered; '
    'delay states are accepted as N[i] or N[i,1]. Values only on the grid. One defect family is reported under a '
    'fixed signature (component-parameter attribute in a component array), see known_findings.'
)

CHECKS["C16"]["text"] = (
    'Every alias tree over v1..vn (every labeled tree, both orientations of every link, link forms `a = b`, `a = '
    '-b`, `a - b = 0`, `a + b = 0`, every order of the equation list; v1 a state / algebraic / input, the rest '
    'algebraic) crossed with (i) every set of <= k explicit attributes (min, max, nominal from 2-value grids, fixed '
    'false/true, start numeric / 0 / parameter p) placed anywhere on the variables and (ii) merge matrices: one '
    'profile per variable, every combination over the variables, of start {absent, a, b, -a, 0, p, -p} x fixed '
    '{absent, true} (SF), of bounds {none, min, max, both} (BD), and SF x one further min / max / nominal (SFP) -- '
    'every (survivor, alias) pair meets every combination the merge loop branches on (own start absent / present x '
    'alias start absent / equal / different / negated / zero / symbolic x fixed on either side; one-sided / '
    'two-sided bounds x sign) whichever variable pymoca keeps; generated and simplified as _compile_model does '
    "(generate + simplify({'detect_aliases': True})). Histories: every split of a tree's links into early and late "
    'ones, the late ones being alias equations only for a second pass -- H2: simplify({detect_aliases}); '
    'simplify({replace_constant_values, detect_aliases}) with late links `a = (-)b + c`, constant c = 0; HI: '
    'simplify({detect_aliases, iterative_simplification}) with late links `a = (-)b + (u -/+ w)`, `u = (-)w` an '
    'early link. Reference: signed union-find of the written equations (early and late); the surviving variable is '
    'read from the model after the last pass; its min/max (sign-swapped intersection), nominal (largest), fixed '
    "(any), start (own kept, else some alias's, sign-adjusted) are compared on the Variable and in "
    'variable_metadata_function; alias_relation, canonical_signed and Variable.aliases are compared with the '
    'union-find (membership and signs; no listed alias may still be a model variable). quick: n=2 full structures x '
    '{<=2 attributes, SF, BD}, plain forms x SFP; n=3 full x 0, plain forms x 1, plain forms in one equation order '
    'x 2, tree x signs x {SF, BD with reduced alphabets}; H2 and HI on n=3 plain forms in one order x every split x '
    '<=1 attribute (105 960 programs, 11 520 completed by the second pass). thorough: n=2 full x <=3 and SF, BD, '
    'plain x SF x BD; n=3 full x <=2, plain x 3, one-order x {SF, BD}; n=4 full x 0, one-order x 1, tree x signs x '
    '2 and x 3; H2 and HI on n=3 one-order x <=1, n=3 tree x signs x {2 attributes, SF}, n=4 tree x signs x <=1 (2 '
    '598 144 programs). The per-level table is in the evidence (`levels`).'
)

CHECKS["C16"]["note"] = (
    'The survivor is not prescribed; with several explicit alias starts any is accepted; a class mixing explicit '
    "and absent nominals may report max(explicit) (absent = 0, pymoca's convention, "
    'test_simplify_alias_small_nominal) or max(1, explicit) (Modelica default); one state-or-input per class at '
    'most; attributes are literals or one parameter (p, -p); a late link `a = s b + 0` is taken to state a = s b; '
    'at most two passes, made by replace_constant_values or by iterative_simplification only; completeness of alias '
    '*detection* is not demanded (C14/C15), only counted. The matrices are crossed with each other only at n=2 in '
    'thorough; n=3 matrices and n=4 with >= 2 attributes are complete only over the reduced structure sets named in '
    'the evidence.'
)

CHECKS["C20"]["technique"] = (
    'explicit-state BFS over edit / addition / option / library-folder / version / transfer_model histories, one '
    'process and one folder per history, logical mtime clock'
)

CHECKS["C20"]["text"] = (
    'All histories up to length 5 (quick) over: real transfer_model; rewrite P.mo (model P.Main), Part.mo (second '
    'file of the model folder) and the library file with the other variant; add a .mo file that changes the '
    'flattened model (a package shadowing one the model uses) to the model folder / a new subfolder of the library '
    'folder; switch between 5 option sets (plain, detect_aliases, replace_constant_values, '
    "eliminable_variable_expression 'a_.*' and 'b_.*'); point library_folders at another folder whose files are "
    'later than the cache; switch the pymoca version. A history runs in one process on one folder path; the '
    "abstract state includes what this process's cache code has been through (nothing / compiled / last load hit / "
    'missed). Histories of maximal length end in transfer_model. Thorough: four explorations widening one dimension '
    'each -- base alphabet + process restart (length 6); 18 option sets (every Boolean option switched away from '
    'its default, both regular expressions, detect_aliases without derivative aliases; length 5); touch + six kinds '
    'of added file (length 5); cache/codegen switch with expand_mx on a top-level wrapper class (length 5). Every '
    'edit gets the next tick of a logical clock as mtime. Every transfer_model result must equal _compile_model of '
    'the current sources and options, and a cache that was loaded must have been written for the current version '
    'and options.'
)

CHECKS["C20"]["note"] = (
    "mtime granularity is the logical tick; the premise 'edits are later than the cache' is built into the alphabet "
    '(also for the folder library_folders is re-pointed at); mtime_check=False, re-pointing library_folders at '
    'older files, removing / renaming files are outside the property. Per-process state of pymoca that is not keyed '
    'by a folder, file or cache path could leak between histories evaluated by the same worker (each history has '
    'its own path).'
)

CHECKS["C22"]["text"] = (
    'Models y = delay(expr, dur) on a fixed declaration header with two or three symbols of each category {literal, '
    'constant, parameter (valued, unvalued, expression-valued, array element), fixed input (scalar, element of an '
    "'each fixed=true' array), free input (default, explicit fixed=false, array element), time, state (one of them "
    "with fixed=true), der(state), algebraic} and a tenth category 'delayed signal' (20 durations delay(E, D): E a "
    'state / algebraic / free input / array element / der(state) / time / mixed expression / '
    'constant-parameter-fixed-input expression, D allowed, disallowed, or again a delayed signal): dur over every '
    'single symbol (41) and every ordered pair of categories joined by + and by * (251 durations quick, 431 '
    'thorough), expr in {x, 2*x+p, xv[2], whole vector xv} outside and {x, 2*xv[i]+p, xv[i]} (thorough: xv[i-1]) '
    "inside 'for i in 2:3'; two-delay models over every ordered pair of single-symbol durations (10x10 quick, 25x25 "
    'thorough) x layouts {out/out, out/loop, loop/out, same loop, two loops} x 3 (thorough 9) expression pairs '
    "(thorough: also every two-symbol duration next to p / u in either position); via-variable models 'tau = "
    "delay(E, D)' (before / after its use, or + p) with dur in {tau, tau+p, uf*tau}; each under the option sets "
    'default, expand_vectors, expand_vectors+expand_mx, detect_aliases, replace_constant_*, replace_parameter_*, '
    'reduce_affine_expression, unroll_loops=False (thorough: their combinations, expand_mx, '
    'replace_parameter_expressions alone), the via-variable models also under eliminable_variable_expression=tau '
    '(+expand_vectors, +detect_aliases); loop-indexed durations (13: pv[i], ufv[i], uv[i], xv[i], pv[i-1], sums and '
    'products with loop-invariant symbols, with another loop-indexed element, with a state / time) x every in-loop '
    'expression incl. the loop-invariant x, 6 pairs of them in one loop / two loops, and next to an outside delay '
    '(one delay state element and one duration per iteration). One transfer_model call (cache and codegen off) on a '
    'scratch folder per (model, option set): 20.9k quick, ~495k thorough. Oracle: accepted iff every free symbol of every duration '
    '(including the durations of delays nested in a duration) is a literal, constant, parameter or fixed input '
    '(category from our own declarations); a duration that mentions the delayed value of a state, derivative, '
    'algebraic variable, free input or time, or an algebraic variable defined by a delay, must be rejected; for '
    'accepted models every source delay is linked to its delay state (perturbing the delay inputs and the target '
    'variable in the real DAE residual, or via the alias relation when the target was eliminated) and '
    "delay_arguments_function must return, at that state's position in model.delay_states, the reference value "
    '(vf.ref.mast.evn) of the source expression and duration on 3 grid points; delay states must be inputs, 2 '
    'outputs per delay state, no delay state without a source delay.'
)

CHECKS["C22"]["note"] = (
    'Any exception counts as rejection of a should-reject model (ValueError from Model._post_checks is the '
    'documented one and is counted separately); any exception on a should-accept model is a violation. No verdict '
    'is demanded for a duration that is the delayed value of an expression over constants, parameters and fixed '
    "inputs only (the statement's two sentences disagree: in the source it depends only on allowed symbols, in the "
    'model on the non-fixed delay-state input; the code rejects), nor for tau = such a delay under the options that '
    'replace tau by its definition; these models are run and counted. The loop index itself as a duration '
    '(delay(x, i)), delay of a bare literal, delays inside functions / if-equations, aliases that '
    "change a symbol's category (algebraic = fixed input; a fixed=true attribute on an algebraic variable that "
    'detect_aliases ORs into an input), eliminate_constant_assignments, cache / codegen (C19) and arrays with '
    "element-wise fixed={..} are outside the alphabet. Finite grid. transfer_model parses through pymoca's default "
    'parse cache (worker-private folder).'
)

CHECKS["C14"]["text"] = (
    'Models with one state, one input, parameters (one defined by an expression), a constant and n = 3 (thorough 4) '
    'algebraic unknowns. (A)-(C) triangular: each unknown defined from an earlier quantity by one of 20 forms (6 '
    'alias spellings, 7 constant assignments incl. v = 0, 4 affine forms with constant factors, 2 if-else forms, a '
    'neutral one): complete for <= 1 special form (every position, 4 dependency patterns, 2 state equations; every '
    'permutation of the equation list on the chain pattern), for every pair of special forms, and for every '
    'full-length chain over 6 core forms. (D) non-triangular regular systems: every non-singular set of k equations '
    'from a pool of alias / shift / constant forms over the ordered pairs of k = 2 (3) unknowns -- alias cycles '
    'with inconsistent signs, mutually defined unknowns. (E) models of (A) with an initial equation; DAE + initial '
    'equations compared as one system. (F) systems that need not be square: every set of 2-3 alias equations tying '
    'two unknowns to the state, the input or each other with either sign (redundant, contradictory, '
    'over-determining). Option sets: every set of the 13 simplification switches and eliminable_variable_expression '
    'within Hamming distance 1 of the default and of all-on on the source-order models (distance 2, thorough, on '
    'the core pairs) and 10 / 5 named sets elsewhere. The real generate + simplify runs on each (a worker killed by '
    'a signal is re-run in isolation and reported as process-crash); an exception or a warning logged by simplify '
    'counts as reported failure (an imbalance the model already had before simplification does not). Otherwise, for '
    'affine models the decision is exact: every recorded elimination (signed alias pair, algebraic unknown turned '
    'constant with its value) must be a linear consequence of the original rows, and the projection of the original '
    "solution set onto the remaining coordinates must have the row space of the simplified residual's rows (read "
    'off the real function at 0 and unit vectors, affinity verified); for regular models the recorded eliminations '
    'hold and the simplified residual vanishes with full-rank Jacobian at the unique solution for three (state, '
    'input) points.'
)

CHECKS["C15"]["text"] = (
    'The C14 enumeration without family (F) -- regular square models by construction, squareness checked before '
    'simplification, including non-triangular alias cycles and models with initial equations -- is run through the '
    'real generate + simplify; afterwards (#states + #algebraic states) - (#entries of the DAE residual) must be '
    'unchanged, states and derivative states must pair up, dae_residual_function, initial_residual_function and '
    "variable_metadata_function must be constructible and both residuals evaluable from the model's own variable "
    'lists (no dangling eliminated symbol). A failure of the post-simplification balance / residual construction is '
    'a violation; a worker killed by a signal is re-run in isolation and reported.'
)

CHECKS["C15"]["note"] = (
    'An exception raised inside simplify() itself is not judged unless it names a dangling model variable (e.g. the '
    'crash of reduce_affine_expression applied twice under iterative_simplification trips over its internal vectors '
    'and is reported only in DESIGN.md); scalar variables only.'
)

CHECKS["C24"]["text"] = (
    'Five families of models are generated as text, compiled by pymoca.backends.sympy.generator.generate, the '
    'source is compiled and executed (real runtime.OdeModel, compute_fg stubbed) and the object is compared with a '
    'reference (own flattener + vf.ref.mast evaluator). expr: every tree with <= 3 (quick) / 4 (thorough) operator '
    'nodes over + - * / ^, unary minus, sin/cos/tan, der(x), leaves x v p c u time 2 (state, algebraic, parameter, '
    'constant, input, time, literal; rotating start, thorough: every start for <= 3 nodes) as right-hand side (<= 2 '
    'nodes also as left-hand side), printed with minimal and with full parentheses. lit: every tree with <= 2 / 3 '
    'operator nodes over + - * / ^ and unary - +, every leaf position taking each of p (real grid values), n '
    '(integer grid values 2 3 -2 4), 2, 0.5, so that bare and signed literals are base and exponent of ^ and left / '
    'right operand of every operator and powers of negative bases are real. names: base model (one variable per '
    'class + component a with a.b, a.k) with every assignment of <= 2 / 3 names of a pool (dict attributes and psi, '
    'Python builtins, their suffixed twins, a__b / a__b_ / a__k / a_b, x_, t) to distinct variables. mangle: names '
    "= every plain or dotted spelling (nesting <= 2) that '.' -> '__' turns into a__b, a__b_, a___b, a__b__c "
    '(thorough: + a__b__, a__b__c_) and print, t, super with one (two) underscore(s) appended, 17 / 26 names; '
    'models with a frame and one name in every category, every pair of names (names competing for one identifier: '
    'every pair of categories; others: one rotating pair, thorough every pair), every triple of competing names in '
    'every triple of categories (thorough: also every other triple, rotating categories), component classes '
    'generated as the dots require. struct: base model under every compatible set of <= 2 / 3 of 20 structural '
    'deviations (class absent / doubled, output that is a state, der inside an expression, component with '
    'input/output members, parameter without value / start only / negated literal, state start). Oracle: source '
    'compiles and instantiates; every eqs entry equals lhs - rhs of a flat equation on 3 / 4 grid points (symbols, '
    "derivatives and time substituted); x v c p u y hold exactly the flat model's states / variables (no prefix or "
    'non-state output) / constants / parameters / inputs / outputs; distinct variables and time are distinct '
    'symbols and distinct Python identifiers (no identifier assigned twice in the generated constructor).'
)

CHECKS["C24"]["note"] = (
    'Scalar Real models, literal (possibly negated) declaration values, components nested <= 2 deep (with member '
    'equations only one level), no connect; Python keywords (lambda, None, ...) and names the generated module uses '
    'itself (sympy, mech, self, sin, OdeModel, the class name) are not in the name alphabet; lit leaves out trees '
    'with a literal-only sub-expression that has no real finite value (2 / (2 - 2), (-2) ^ 0.5); symbols are '
    "recognised by name with '.'/'__' identified and trailing underscores ignored (inside such a group every "
    'assignment is tried); list order, x0/p0/c0/u0 and compute_fg (sympy.solve) are not judged; finite grid, '
    'ill-conditioned or non-real points skipped.'
)

CHECKS["C15"]["note"] = (
    'Scalar variables only. An exception raised by generate() (before simplification) is not judged; expand_mx is '
    'switched on together with eliminable_variable_expression because pymoca refuses that combination by design.'
)

CHECKS["C12"]["text"] += (
    " Loops that visit a whole vector in a non-identity order (array size = number of iterations, subscript n+1-i) are included in "
    "both tiers; between generating the 8 settings of a model and reading their functions another (decoy) model is compiled with "
    "expand_mx and evaluated, as a caller compiling a batch of models would do, so that state kept outside the model object shows."
)
CHECKS["C25"]["text"] += (
    " The literal alphabet contains 0 / 1 / 0.0 / 1.0 next to true / false (values that compare equal across Python types)."
)

CHECKS["C13"]["technique"] = (
    'exhaustive enumeration of (variable kind x attribute x expression form) singles and pairs, and of all short '
    'event histories (read function / read variables / simplify(option)) on one Model object, against reference '
    'attribute values'
)

CHECKS["C13"]["text"] = (
    'append to the existing text "Histories: on 35 (thorough 55) models whose attributes depend on parameters with '
    'values, a free parameter and an expression parameter (plus a constant and an alias pair declared before the '
    'variable), every sequence of at most 3 (thorough 4) events from {read variable_metadata_function, read every '
    'Variable attribute, simplify(o)} -- o each of resolve_parameter_values, replace_parameter_expressions, '
    'replace_constant_expressions, replace_parameter_values, replace_constant_values, expand_vectors, '
    'detect_aliases that can change the model by the reference (thorough also replace_parameter_expressions + '
    'replace_parameter_values in one call) -- is applied to one Model object (14 079 / 259 195 histories); at every '
    'read and after the last event the variable lists, python types, every attribute of every listed Variable and '
    'every block of the metadata function (arity, shape, values at 3 parameter points, with the parameters the '
    'model has then) are compared with a reference state machine of what each option inlines / removes."'
)

CHECKS["C13"]["note"] = (
    'Finite parameter grid. '
    'Histories: a simplify() call that raises ends that history without a verdict (counted); attributes do not '
    'mention constants; the aliased pair has default attributes (no alias-merge rule assumed); '
    'eliminate_constant_assignments and eliminable_variable_expression are not among the events.'
)

CHECKS["C09"]["text"] += (
    " A further model has two connector classes with the same short name (E.Pin, T.Pin) and different variable lists, connected "
    "side by side with <= 2 (3) clauses, each within one class."
)

CHECKS["C23"]["text"] += (
    " Models with two for-equations sharing the index name and the subscript expression but not the range (equal length, "
    "different bounds) are included, each loop judged on its own range."
)

CHECKS["C01"]["technique"] = (
    'explicit-state BFS over cache-event histories on a real cache folder (deviation-bounded), results edited in '
    'place by the caller + every prefix and every single-byte damage of a stored pickle, classified by plain pickle'
)

CHECKS["C01"]["text"] = (
    "Every history of length <= 4 with <= 2 deviations (quick; thorough: 'wide' <= 4 with <= 3 over everything, "
    "'deep' <= 6 with <= 3 without the near-duplicates) over parse(OK1/OK2/BAD, expiration, always_update), parse "
    'of 8 near-duplicate texts (a base text with a multi-line / blank- / tab- / case- / accent-carrying string '
    'literal and its image under LF->CRLF, trailing-blank stripping, blank-run collapsing, tab expansion, '
    'lower-casing, accent change, NFD: different texts, different trees; all 56 ordered pairs), module reload, '
    'version change (incl. .dirty), clock jumps, entry faults (empty, truncated, garbage, class gone, other-version '
    'entry holding a different tree, one damaged entry per further exception type that single-byte damage makes '
    'pickle raise -- IndexError, MemoryError, OverflowError, TypeError, UnicodeDecodeError, ValueError --, data '
    'column NULL), layout faults and file faults is executed on the real parse() with the clock and version behind '
    'seams; every returned tree is compared node for node (types included) with the uncached parse of the same '
    'text, None iff syntax error; then the caller edits the returned tree in place (every reachable container and '
    'pymoca object) and keeps it, so a later result that shares an object with an earlier one differs; no row for '
    'the broken text, no None stored, .dirty leaves the folder untouched. Plus every 16th (quick) / every '
    '(thorough) prefix of the stored pickle, followed by two parses. Plus single-byte damage of the stored pickle '
    '(every offset x {0x00, 0xff, xor 1, +1}; thorough: x all 255 values, byte deleted, byte inserted) and a data '
    'column holding NULL / an integer / a text: each damaged entry is classified by plain pickle.loads outside '
    'pymoca (equal tree / different object / raises X); parse() is run on the first and last entry of every outcome '
    "'raises X' and 'equal' as a history of its own with and without reload (quick: 92 histories over 12 277 "
    'classified) and on every such entry (thorough: 790 864 of 925 886); entries that load to a different object '
    'are counted, not judged.'
)

CHECKS["C01"]["note"] = (
    'Deviation = fault, version change, clock jump or parse of a near-duplicate. Abstract state = database '
    'abstraction (layouts, metadata keys, rows with stored key, version, data hash incl. storage class, last_hit '
    'bucketed by the cut points parse() compares with) + initialised flag + version + results handed out per text '
    'in this process (0..2, wide search 0..3). One process and one folder (sharing is C02); process state is '
    'assumed to live in pymoca.parser (module reload = new process); near-duplicates with equal trees (outer blank '
    'lines, BOM, comments) cannot violate the statement and are left out; pickles that load to a foreign object '
    "under the *current* version are outside the alphabet (decided per entry by the harness's own pickle.loads). "
    'All pickle.loads and parse() calls run under RLIMIT_AS = current size + 512 MB: a damaged length byte can make '
    "the unpickler ask for tens of GB, which then is 'raises MemoryError'. Byte damage on the pickles of OK1 and "
    'OK2 only; no multi-byte damage other than truncation.'
)

CHECKS["C06"]["technique"] = (
    'explicit-state BFS over deepcopy/edit/observe interleavings on up to 3 live trees, differential oracle against '
    'fresh parse + own edits through the same route'
)

CHECKS["C06"]["text"] = (
    'All histories up to length 3 (quick) / 4 (thorough) with <= 2 / 3 deviations (edit or observation events; <= 2 '
    'edits, <= 2 observations) over deepcopy of any tree, add/remove symbol/equation/class on a component-type '
    'class, a base class and the top model, and observation of every class of a live tree through tree.flatten in '
    'place / the SymPy backend / the XML backend (checked, and kept in the history, so later copies and edits act '
    'on observed trees), on up to 3 trees (copies of copies included). After every copy or edit every tree is '
    'observed on a replay of its own -- flatten of a deep copy, every route an earlier observation used, thorough: '
    "in place always -- and must equal a fresh parse carrying exactly that tree's own edits observed through the "
    'same route. 2835 transitions quick, 42841 thorough.'
)

CHECKS["C06"]["note"] = (
    'One library (component types + extends + modifications); edits through the public AST API only; the expected '
    'result uses the same AST API and the same route on a never-copied fresh parse (computed before the '
    "exploration), so defects of add_/remove_ or of a backend's rendering themselves are not seen. Observation "
    'events observe all classes of a tree in a fixed order (final observations in the reverse order); single-class '
    'observation events and imports are not in the alphabet. State kept outside the trees is not reset between '
    'replayed histories of a worker.'
)

CHECKS["C06"]["text"] = (
    'Two libraries: flat (top-level classes: component types, extends, modifications) and pkg (packages: a '
    'package-qualified component type and extends, a qualified and an unqualified import in an enclosing package, a '
    'class nested two levels deep that finds its component type in an enclosing package; every observed / edited '
    'class is nested). Per library all histories within the bound -- quick: flat length 3, <= 2 deviations (edit or '
    'observation events), <= 2 edits; pkg length 3, <= 2 deviations, <= 1 edit; thorough: flat length 4 / 3 '
    'deviations / 2 edits; pkg length 4 / 3 deviations / 1 edit and length 3 / 2 / 2; <= 2 observations -- over '
    'deepcopy of any tree, add/remove symbol/equation, remove class, replace class by a different class of the same '
    'name (remove_class + add_class), add class, on a component-type class, a base class and a top model (quick '
    'flat: the first two), and observation of every class of a live tree through tree.flatten in place with ONE '
    'ComponentRef object per class name kept for the whole history / the SymPy backend / the XML backend (quick '
    'pkg: in place only) -- checked, and kept in the history, so later copies and edits act on observed trees -- on '
    'up to 3 trees (copies of copies included). After every copy or edit every tree is observed on a replay of its '
    'own -- flatten of a deep copy, every route an earlier observation used, thorough: in place always -- and must '
    "equal a fresh parse carrying exactly that tree's own edits observed through the same route. 2510 transitions "
    'quick (2001 flat + 509 pkg), 70925 thorough.'
)

CHECKS["C06"]["note"] = (
    'Two small libraries; edits through the public AST API only; the expected result uses the same AST API and the '
    'same route on a never-copied fresh parse (computed before the exploration), so defects of add_/remove_ or of a '
    "backend's rendering themselves are not seen. Quick has no two-edit histories on the package library, no edits "
    "of the flat library's top model and no backend observation events on the package library (thorough has). "
    'Observation events observe all classes of a tree in a fixed order (final observations in the reverse order); '
    'single-class observation events, removal / replacement of a whole package, Tree.extend and encapsulated '
    'classes are not in the alphabet. State kept outside the trees is not reset between replayed histories of a '
    'worker.'
)

CHECKS["C13"]["text"] += (
    " Round 2: the forms of part (1) also contain the alphabet of the metadata function's affine-block decision (operations "
    "const + - * / neg, zero second derivative), each form alone in its model: affine 3*p, p+q, p-q, 3*p+q/4-1; non-affine q/p, "
    "p/q, 2/p, 1/p, -(p*q), -(q/p), p*q+p, p-q/p, (p-q)*p, (p+q)/p, p/(q+1), p*p -- on every attribute of one scalar Real kind per "
    "variable group (state, algebraic, input, parameter, constant) and a 1-D algebraic (thorough: all 11 Real kinds); 1 587 "
    "(thorough 3 097) programs, 15 279 / 306 005 histories."
)
CHECKS["C13"]["note"] += " Parameter grid points have p, q, q+1 != 0 (division by a parameter that is 0 is not in the alphabet)."

CHECKS["C18"]["technique"] = (
    'bounded-exhaustive program enumeration, differential: expanded vs unexpanded CasADi model (same other options) '
    "under the check's own renaming"
)

CHECKS["C18"]["text"] = (
    'Every program within <= 2 (quick) / 3 (thorough) feature deviations from a per-category base program (subject '
    'array x of each category algebraic / state / input / parameter / constant; deviations over 17 shapes and paths '
    '-- 1-D n=1..3, 2-D up to 2x3, component arrays holding scalars and arrays, arrays in scalar components, '
    'two-level nesting --, start/min/max/nominal in 12 forms (each / array literal / DM / MX / array parameter / '
    'component parameter / component-level modification), fixed, value form, output, equation form (whole array, '
    'per element, rows and slices, for-loop, initial, x assigned a constant array / zeros, w = x, w = -x, x = w), '
    'der form, delay form (whole array, inside a for-loop, one element), Integer, neighbours, siblings (20 '
    "configurations: one or two further vectors y[n], u[n] of x's kind -- for outputs also of the other "
    "differentiation status -- before / after x, sizes 1, 2, 3 mixed in every declaration order, each carrying x's "
    'output prefix, attributes, equation / der / delay forms with its own values, coefficients and delay durations, '
    'so that outputs, delay states, groups and the substitution lists hold two and three arrays of different '
    'sizes)) is generated by the real backend without expand_vectors and with it (expand_mx off and on). The '
    "expanded model must be the unexpanded one renamed by the check's own namer (1-based indices at the path "
    'element that declares the dimension): groups in place and row-major, attribute element (i,j) on scalar (i,j) '
    '(MX attributes evaluated as functions of the parameters at 2 grid points), outputs (every output that is a '
    'variable of the unexpanded model, in whatever group: every scalar name exactly once, no array name left), '
    "delay states and delay arguments (element and duration of the state's own argument), dae and initial residual "
    'entry by entry at grid points with a distinct value per element; an exception raised only by the expansion is '
    'a violation. The same comparison, same options on both sides, under each single other simplification switch '
    'that moves, removes or rewrites variables (eliminate_constant_assignments, replace_constant_values, '
    'replace_parameter_values, replace_parameter_expressions, replace_constant_expressions, '
    'resolve_parameter_values, detect_aliases, eliminable_variable_expression) on the programs the switch acts on, '
    'within <= 2 / 3 deviations (1 / 2 for the three switches that act on every parameter or constant); thorough: '
    'every pair of switches one deviation lower. 11444 programs and 13907 program x option-set combinations quick, '
    '203532 and 282693 thorough.'
)

CHECKS["C18"]["note"] = (
    'The unexpanded model under the same options is the reference for groups, attribute values and residuals '
    '(differential); programs the unexpanded backend rejects are not judged (none with default options; 54 quick / '
    '3044 thorough under a switch: list-of-expression bounds on aliased arrays, nested-list values under '
    'replace_*_values). A switch is only applied where it acts on whole arrays: on element equations (for-loops, '
    'slices, delays in loops) alias detection / elimination legitimately find more after an early expansion; '
    'inner-array values inside component arrays are excluded under the value-replacing switches because the '
    'unexpanded model itself is wrong there. Siblings are top-level vectors (forms that exist only inside a '
    'component class stay on x). Order inside outputs / delay_states (compared as multisets), order inside the '
    'groups under another switch with expand_mx, outputs whose variable the options removed, python_type of the '
    'scalars, 3-D+ arrays, factor_and_simplify_equations / reduce_affine_expression and three or more switches are '
    'not covered; delay states are accepted as N[i] or N[i,1]. Values only on the grid. One defect family is '
    'reported under a fixed signature (component-parameter attribute in a component array), see known_findings.'
)

# ---- round 3 of seeded changes (see DESIGN.md section 9) ---------------------------------------------------
CHECKS["C20"]["text"] += (
    " Since the third seeded round: the model folder's path is a string prefix of both library folders' paths "
    "(model, model_lib, model_lib2); the quick option alphabet is {plain, simp, simp_iter, elim_a, elim_b} where "
    "simp = detect_aliases + eliminate_constant_assignments + replace_constant_* + factor_and_simplify_equations and "
    "simp_iter adds iterative_simplification -- an option Model.simplify honours but the table of default options "
    "does not list -- and Main has a chain (f0 = 0; f1 = 1; f0 = fz - fh; fh = f1) that only the iterated "
    "simplification reduces fully, so the two differ in the compiled model."
)
CHECKS["C01"]["text"] += (
    " Layout faults since the third seeded round also include 'models-retyped' / 'metadata-retyped': the table is "
    "replaced by one with the same column names, order and primary key but other declared types (last_hit TEXT, "
    "txt_hash VARCHAR, value BLOB), keeping its rows."
)
CHECKS["C12"]["text"] += (
    " Since the third seeded round: two more subscript forms, z(v) and z(v)+v with z an Integer function holding an "
    "if-expression (piecewise constant / piecewise affine in the loop variable, slope 0 resp. 1 almost everywhere; "
    "quick: alone and next to v, v+1, v-1, thorough: in every pair) and the loop-body kind 'call2' in which every "
    "differently subscripted element goes through the same user function g (g(y[s1]) + 2*g(y[s2]))."
)
CHECKS["C12"]["note"] += (
    " An if-expression written inline in a subscript is rejected by pymoca under every setting (get_integer: "
    "'Unexpected node type IfExpression') and is therefore outside the alphabet."
)
CHECKS["C15"]["text"] += (
    " Two further families, C15 only: (H) a second state d defined algebraically (d = 3*a1 | 3*a1 + p | a1 | -a1; der(d) "
    "= 1 - a2 | u - a2; a1 = 2*a2 | a2 | 2*a2 + u; der(s) = a2 + u) x all 24 equation orders x "
    "eliminable_variable_expression in {d, d|a1, [da].*, a1, d|a2, a.*} x {expand_mx, + detect_aliases, all switches on; "
    "thorough also all-on minus detect_aliases / minus iterative_simplification} (1 728 cases quick): eliminating d "
    "differentiates its definition and promotes a1 to a state in the middle of the pass; (I) "
    "eliminable_variable_expression meets recorded aliases: der(s) = a3 + u; an alias equation only detect_aliases "
    "recognises (2*a1 - 2*a2 = 0 | a1 - a2 = 0 | a1 + a2 = 0); a1 = 2*a3; a3 + a2 = 3 | a2 = 3 - a3; all 24 orders x "
    "patterns {a1, a2, a[12], a3, a.*} x {expand_mx + detect_aliases, + iterative_simplification, all on} (2 160 cases)."
)

CHECKS["C08"]["technique"] = (
    'level subsets x spellings x scoped expressions of one or two modified items, compared with a reference '
    'flattener (outer wins per item)'
)

CHECKS["C08"]["text"] = (
    'A modified element 1-2 (thorough 1-3) component levels deep under a two-level extends chain, an enclosing '
    'component and the component above it. Single item: one item (a parameter value; start, min, max, nominal, '
    'fixed, unit) with every subset of <= 3 (thorough: all; <= 4 at depth 3) of the levels that can modify it -- '
    'type definition, declaration, enclosing components of the declaring hierarchy, inner and outer extends clause, '
    'enclosing component, the component above it -- each present level carrying a value that identifies it; the '
    'expression of one level (or none) is a name q that exists with a different value in every class, so the scope '
    'of resolution shows; every dot / parenthesis spelling of the links of one level (thorough: two levels). '
    'Several items: every pair of levels modifying different items of the element, one each (quick: every pair with '
    'the value on one side, each attribute with its cyclic successor, value / start with the same item of a sibling '
    'element; thorough: all 42 pairs, all 49 with an item of the sibling, every triple of levels with two items), '
    'as the base program plus each single deviation (q at one level, the attribute link of one level spelled the '
    'other way; thorough: q x every spelling of <= 2 levels). Joint: one level carries two items at once as one '
    'node x(a = .., b = ..) / x(a = ..) = v or as two arguments (thorough: plus a second level carrying one of '
    'them). A program is either rejected by pymoca or its flat model equals the reference (per item the outermost '
    'level that mentions it, expression resolved where written; nothing else lost) in every variable, attribute and '
    'equation; accepted members of a spelling group must agree.'
)

CHECKS["C08"]["note"] = (
    'Rejection (any exception) is accepted for every spelling, as the statement allows (pymoca rejects every '
    'nested-component spelling t(m(x ..)); the new families enumerate those in thorough only); a variant names the '
    'class of the modified component like the class that contains it (scopes must be told apart by class, not by '
    'short name); one item per level except in the joint family (two); redeclare, each, array-valued and final '
    'modifications are outside the alphabet.'
)

CHECKS["C13"]["text"] += (
    " Since the third seeded round, part (1) also has forms of degree >= 3 in distinct parameters (second derivative "
    "zero at a point, not identically; further parameters s, t): p*q*s, p*q*s+p, p*q*s/4-q, p*q*s*t, p*q*(p-q), "
    "(p-1)*(q-1)*(s-1), each alone in its model, and array variables (1-D and 2x3 algebraic; thorough also 2x2 and state "
    "/ input / parameter 2x3) with attributes whose elements differ and depend on parameters: an array parameter a of "
    "the variable's shape as a, 3*a, -(p*a), p*q*a, and array constructors {3*p+q, 4*p+q, ...} and {1.5, 4*p, p*q-2, "
    "...}, on every attribute: 1 830 (thorough 4 506) programs. Histories: 43 (thorough 90) models, 17 185 / 407 810 "
    "histories; the events gain expand_vectors + expand_mx; history forms add k*p*q; four (thorough 20) array models "
    "with max / min / start / nominal all array-valued, whose parameter rows (a, after expansion a[i,j]) are compared "
    "as well."
)
CHECKS["C13"]["note"] += (
    " Array constructors have expressions or literals as elements, not bare component references ({p, q} makes "
    "pymoca's generator raise KeyError anywhere, also in equations); arrays of more than two dimensions and arrays of "
    "components are outside the alphabet (element-wise parameter-dependent array attributes are now inside it); grid "
    "points have p, q, s, t != 0, 1. replace_parameter_values / replace_constant_values raise on a 2-D parameter / "
    "constant with a literal value: such histories are cut and counted (61 quick), not judged."
)

CHECKS["C09"]["text"] += (
    " Array family (since the third seeded round): the endpoints are ELEMENTS of connector arrays -- Comp c1; Tank t "
    "(Pin ports[3]; Pin top); Pin e[2] with endpoints c1.p, t.ports[1..3], t.top (inside; the subscript of t.ports[k] "
    "sits in the second index group of the flat reference) and e[1], e[2] (outside), every sequence of <= 2 (thorough "
    "3; 2 with two potentials and two flows) clauses; and arrays of components Comp b[2]; Tank tt[2]; Pin e[2] with 8 "
    "endpoints such as b[2].p, tt[2].ports[1] (flat variables of dimensions (2,), (2, 3)), <= 1 (2) clauses: 1 864 "
    "array cases quick. The reference for this family is built in the check (union-find over (element, "
    "inside/outside), potentials equal, signed flow sums, zero for the flows of every element in no connection); "
    "pymoca's equations are scalarised (x[k] = one unknown per element, a whole-array equation such as e.i = 0 = one "
    "row per element) and compared by the same exact row-space equality; the flat variables must have the declared "
    "dimensions."
)
CHECKS["C09"]["note"] += (
    " Connect clauses name scalar connectors or single elements of connector arrays with literal subscripts and "
    "literal dimensions; whole-array clauses connect(t.ports, e), dimensions given by parameters, expandable / stream "
    "connectors and self-connections are outside the alphabet. Open known finding "
    "unconnected-array-element-flow-not-zero: never-connected elements of a partly connected connector array get no "
    "'= 0' equation (a TODO in pymoca's expand_connectors says so); it is reported under that signature only when "
    "adding exactly those rows makes the two systems equal, so every other fault in an array model keeps a general "
    "signature (1 704 of the 1 864 quick array cases have a partly connected array)."
)

CHECKS["C06"]["text"] = (
    "Two libraries: flat (top-level classes: component types, extends, modifications) and pkg (packages: a package-qualified "
    "component type and extends, a qualified and an unqualified import in an enclosing package, a class nested two levels deep "
    "that finds its component type in an enclosing package; every observed / edited class is nested). Per library all histories "
    "within the bound -- quick: flat length 3, <= 2 deviations (edit or observation events), <= 2 edits; pkg length 3, <= 2 "
    "deviations, <= 1 edit; thorough: flat length 4 / 3 deviations / 2 edits; pkg length 4 / 3 deviations / 1 edit and length 3 / 2 "
    "/ 2; <= 2 observations -- over deepcopy of any tree, add/remove symbol/equation, remove class, replace class by a different "
    "class of the same name (remove_class + add_class), add class, on a component-type class, a base class and a top model "
    "(quick flat: the first two), graft class: add_class of the copy that find_class on ANOTHER live tree hands out, under its "
    "own name, for every ordered pair of trees (flat: in the place of the receiving tree's class of that name -- a "
    "component-type class and a class that looks up the edited classes, thorough also the base class and the top model; pkg: "
    "into the importing package, where it shadows the import), and observation of every class of a live tree through "
    "tree.flatten in place with ONE ComponentRef object per class name kept for the whole history / the SymPy backend / the XML "
    "backend (quick pkg: in place only) -- checked, and kept in the history, so later copies and edits act on observed trees -- "
    "on up to 3 trees (copies of copies included). After every copy or edit every tree is observed on a replay of its own -- "
    "flatten of a deep copy, every route an earlier observation used, thorough: in place always -- and must equal a fresh parse "
    "carrying exactly that tree's own edits (a graft: the class moved out of a second fresh parse carrying the source tree's "
    "edits of that moment) observed through the same route. 2930 transitions quick (2349 flat + 581 pkg), 94217 thorough (run end to end on the final tree: 25 min on 16 cores)."
)

CHECKS["C06"]["note"] = (
    "Two small libraries; edits through the public AST API only; the expected result uses the same AST API and the same route on "
    "a never-copied fresh parse (computed before the exploration, for every edit list reachable within the bound), so defects of "
    "add_/remove_ or of a backend's rendering themselves are not seen. Quick has no two-edit histories on the package library, no "
    "edits of the flat library's top model and no backend observation events on the package library (thorough has). Observation "
    "events observe all classes of a tree in a fixed order (final observations in the reverse order); single-class observation "
    "events, transplanting a class within one tree or under a new name, removal / replacement of a whole package, Tree.extend "
    "and encapsulated classes are not in the alphabet. State kept outside the trees is not reset between replayed histories of "
    "a worker."
)
