"""Per-property registration data; tools/gen_manifest.py turns this into MANIFEST.json."""

ENGINES = [
    {
        "name": "E1-bfs",
        "path": "vf/core/bfs.py",
        "kind_free_text": "explicit-state breadth-first search over event histories applied to the real objects, "
        "canonical state abstraction, closure or depth/deviation bound",
    },
    {
        "name": "E2-sched",
        "path": "vf/core/sched.py",
        "kind_free_text": "stateless preemption-bounded schedule exploration (CHESS style) of real threads at I/O seams",
    },
    {
        "name": "E3-crash",
        "path": "vf/core/crash.py",
        "kind_free_text": "crash-point / torn-write enumeration: every prefix of the bytes a write path produces",
    },
    {
        "name": "E4-enum",
        "path": "vf/core/enum.py",
        "kind_free_text": "bounded-exhaustive enumeration of programs / inputs / option sets against a reference model",
    },
]

# id -> dict(engine, level, technique, text, note, design)
CHECKS = {}


def reg(pid, engine, level, technique, text, note, design=None):
    CHECKS[pid] = dict(engine=engine, level=level, technique=technique, text=text, note=note, design=design or ("DESIGN.md section 2, " + pid))


reg(
    "C17",
    "E1-bfs",
    "model_checking",
    "explicit-state BFS to closure over the real AliasRelation vs. a reference signed partition",
    "Every reachable state of an AliasRelation over 3 (quick) / 4 (thorough) names with both signs under add, remove and "
    "copy is visited (search runs to closure, not to a depth bound) and the whole public API is compared with a reference "
    "signed union-find after every transition, on both sides of the last copy.",
    "Names beyond 4 and removal through signed names are not explored; which member is canonical is left to the "
    "implementation; trusted base: the 60-line reference in vf/checks/c17.py.",
)

NOT_DONE_REASON = "check not completed yet in this build (see DESIGN.md section 6 build order)"
