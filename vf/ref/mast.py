"""Models of our own: declarations + equations as tuples, a printer to Modelica text, and a boring
reference evaluator (numeric encoding: Booleans 0/1, and = product, or = sum, as the statement of C11
has it; 1-based inclusive indexing; arrays as numpy arrays).

Expressions extend vf.ref.expr:
    ("idx", name, (sub, ...))   sub = expr | ("slice", lo, hi) | ("all",)
    ("arr", (e, ...))           array constructor, nests for matrices
    ("der", expr)
Equations:
    ("eq", lhs, rhs)
    ("for", var, lo, hi, [equations])
    ("ifeq", [(cond, [equations]), ...], [else equations])
Statements (function bodies):
    ("assign", target expr (var or idx), rhs)
    ("ifst", [(cond, [stmts]), ...], [else stmts])
    ("forst", var, lo, hi, [stmts])
"""
import math

import numpy as np

from vf.ref import expr as X


class Undefined(X.Undefined):
    pass


class OutOfRange(Exception):
    """A subscript outside 1..n."""


# ---- printing ---------------------------------------------------------------------------------------------


def pe(n):
    """Expression text, minimal parentheses (extends X.pr for the extra node kinds)."""
    return _pe(n)


def _pe(n):
    k = n[0]
    if k == "idx":
        return "%s[%s]" % (n[1], ", ".join(_psub(s) for s in n[2]))
    if k == "arr":
        return "{%s}" % ", ".join(_pe(e) for e in n[1])
    if k == "der":
        return "der(%s)" % _pe(n[1])
    if k == "call":
        return "%s(%s)" % (n[1], ", ".join(_pe(x) for x in n[2]))
    if k in ("num", "bool", "str", "var"):
        return X._atom(n)
    # operators: reuse the level logic of X with our own recursion
    if k == "if":
        return "if %s then %s else %s" % (_pe(n[1]), _pe(n[2]), _pe(n[3]))
    if k == "un":
        if n[1] == "not":
            return "not " + _need(n[2], X.L_REL)
        return n[1] + _need(n[2], X.L_TERM)
    op, l, r = n[1], n[2], n[3]
    return "%s %s %s" % (_need(l, X._left_min(op)), op, _need(r, X._right_min(op)))


def _lvl(n):
    return X.L_PRIMARY if n[0] in ("idx", "arr", "der") else X.level(n)


def _need(n, minlevel):
    s = _pe(n)
    return s if _lvl(n) >= minlevel else "(" + s + ")"


def _psub(s):
    if s[0] == "all":
        return ":"
    if s[0] == "slice":
        return "%s:%s" % (_pe(s[1]), _pe(s[2]))
    return _pe(s)


def peq(e, ind="  "):
    k = e[0]
    if k == "eq":
        lhs = e[1]
        if lhs[0] == "tuple":
            l = "(%s)" % ", ".join(_pe(x) for x in lhs[1])
        else:
            l = _pe(lhs)
        return ["%s%s = %s;" % (ind, l, _pe(e[2]))]
    if k == "for":
        out = ["%sfor %s in %s:%s loop" % (ind, e[1], _pe(e[2]), _pe(e[3]))]
        for b in e[4]:
            out += peq(b, ind + "  ")
        return out + [ind + "end for;"]
    if k == "ifeq":
        out = []
        for i, (c, blk) in enumerate(e[1]):
            out.append("%s%s %s then" % (ind, "if" if i == 0 else "elseif", _pe(c)))
            for b in blk:
                out += peq(b, ind + "  ")
        out.append(ind + "else")
        for b in e[2]:
            out += peq(b, ind + "  ")
        return out + [ind + "end if;"]
    raise ValueError(e)


def pst(s, ind="  "):
    k = s[0]
    if k == "assign":
        return ["%s%s := %s;" % (ind, _pe(s[1]), _pe(s[2]))]
    if k == "forst":
        out = ["%sfor %s in %s:%s loop" % (ind, s[1], _pe(s[2]), _pe(s[3]))]
        for b in s[4]:
            out += pst(b, ind + "  ")
        return out + [ind + "end for;"]
    if k == "ifst":
        out = []
        for i, (c, blk) in enumerate(s[1]):
            out.append("%s%s %s then" % (ind, "if" if i == 0 else "elseif", _pe(c)))
            for b in blk:
                out += pst(b, ind + "  ")
        out.append(ind + "else")
        for b in s[2]:
            out += pst(b, ind + "  ")
        return out + [ind + "end if;"]
    raise ValueError(s)


class Decl:
    def __init__(self, name, type="Real", prefix="", dims=(), value=None, mods=None, each=()):
        self.name, self.type, self.prefix, self.dims, self.value = name, type, prefix, tuple(dims), value
        self.mods = dict(mods or {})
        self.each = set(each)

    def text(self, assign="="):
        s = (self.prefix + " " if self.prefix else "") + self.type + " " + self.name
        if self.dims:
            s += "[%s]" % ", ".join(str(d) if not isinstance(d, tuple) else _pe(d) for d in self.dims)
        if self.mods:
            s += "(%s)" % ", ".join(("each " if a in self.each else "") + "%s = %s" % (a, _pe(v)) for a, v in self.mods.items())
        if self.value is not None:
            s += " %s %s" % (assign, _pe(self.value))
        return s + ";"


class Func:
    def __init__(self, name, inputs, outputs, protected, stmts):
        self.name, self.inputs, self.outputs, self.protected, self.stmts = name, inputs, outputs, protected, stmts

    def text(self):
        out = ["function " + self.name]
        for d in self.inputs:
            out.append("  input " + d.text())
        for d in self.outputs:
            out.append("  output " + d.text())
        if self.protected:
            out.append("protected")
            for d in self.protected:
                out.append("  " + d.text(":="))
        out.append("algorithm")
        for s in self.stmts:
            out += pst(s)
        out.append("end %s;" % self.name)
        return "\n".join(out)


class Model:
    def __init__(self, name, decls, eqs, init_eqs=(), funcs=()):
        self.name, self.decls, self.eqs, self.init_eqs, self.funcs = name, list(decls), list(eqs), list(init_eqs), list(funcs)

    def text(self):
        out = [f.text() + "\n" for f in self.funcs]
        out.append("model " + self.name)
        for d in self.decls:
            out.append("  " + d.text())
        if self.init_eqs:
            out.append("initial equation")
            for e in self.init_eqs:
                out += peq(e)
        out.append("equation")
        for e in self.eqs:
            out += peq(e)
        out.append("end %s;" % self.name)
        return "\n".join(out) + "\n"

    def decl(self, name):
        for d in self.decls:
            if d.name == name:
                return d
        raise KeyError(name)


# ---- reference evaluation ---------------------------------------------------------------------------------


def _num(v):
    if isinstance(v, (bool, np.bool_)):
        return 1.0 if v else 0.0
    return v


def _chk(r):
    a = np.asarray(r, dtype=float)
    if not np.all(np.isfinite(a)):
        raise Undefined()
    return r


def evn(n, env, funcs=None):
    """Numeric value (float or numpy array) of an expression.  env: name -> float / array."""
    k = n[0]
    if k == "num":
        return float(X.num_value(n[1])) if not n[1].isdigit() else int(n[1])
    if k == "bool":
        return 1.0 if n[1] else 0.0
    if k == "var":
        return env[n[1]]
    if k == "der":
        x = n[1]
        if x[0] == "var":
            return env["der(%s)" % x[1]]
        if x[0] == "idx":  # der(x[i]) is element i of der(x)
            return index(env["der(%s)" % x[1]], x[2], env, funcs)
        raise ValueError("der of a general expression is outside the reference's alphabet")
    if k == "arr":
        return np.array([evn(e, env, funcs) for e in n[1]], dtype=float)
    if k == "idx":
        return index(env[n[1]], n[2], env, funcs)
    if k == "un":
        v = evn(n[2], env, funcs)
        if n[1] == "not":
            return 1.0 if v == 0 else 0.0
        return -v if n[1] == "-" else +v
    if k == "if":
        c, t, e = evn(n[1], env, funcs), evn(n[2], env, funcs), evn(n[3], env, funcs)
        return t if c != 0 else e
    if k == "bin":
        op = n[1]
        a, b = evn(n[2], env, funcs), evn(n[3], env, funcs)
        return _chk(binop(op, a, b))
    if k == "call":
        return _chk(call(n[1], [evn(x, env, funcs) for x in n[2]], funcs))
    raise ValueError(n)


def binop(op, a, b):
    if op == "and":
        return a * b
    if op == "or":
        return a + b
    if op in X.REL:
        return 1.0 if X.relop(op, a, b) else 0.0
    elementwise = op.startswith(".")
    o = op[1:] if elementwise else op
    arr_a, arr_b = isinstance(a, np.ndarray), isinstance(b, np.ndarray)
    with np.errstate(all="ignore"):
        try:
            if o == "+":
                if not elementwise and arr_a != arr_b:
                    raise TypeError("+ of scalar and array")
                return a + b
            if o == "-":
                if not elementwise and arr_a != arr_b:
                    raise TypeError("- of scalar and array")
                return a - b
            if o == "*":
                if not elementwise and arr_a and arr_b:
                    return np.matmul(a, b)
                return a * b
            if o == "/":
                if not elementwise and arr_b:
                    raise TypeError("division by array")
                if not arr_b and b == 0:
                    raise Undefined()
                return a / b
            if o == "^":
                if not arr_a and not arr_b:
                    r = float(a) ** float(b)
                    if isinstance(r, complex):
                        raise Undefined()
                    return r
                return np.power(a, b)
        except (ZeroDivisionError, OverflowError):
            raise Undefined()
    raise ValueError(op)


def call(name, args, funcs):
    f1 = {"sin": np.sin, "cos": np.cos, "tan": np.tan, "exp": np.exp, "abs": np.abs, "sqrt": np.sqrt, "log": np.log}
    with np.errstate(all="ignore"):
        if name in f1:
            r = f1[name](args[0])
            return float(r) if not isinstance(args[0], np.ndarray) else r
        if name == "max":
            return max(args[0], args[1])
        if name == "min":
            return min(args[0], args[1])
        if name == "sum":
            return float(np.sum(args[0]))
        if name == "transpose":
            return np.transpose(args[0])
        if name in ("ones", "zeros"):
            return (np.ones if name == "ones" else np.zeros)(tuple(int(a) for a in args))
        if name == "fill":
            return np.full(tuple(int(a) for a in args[1:]), float(args[0]))
    if funcs and name in funcs:
        outs = run_function(funcs[name], args, funcs)
        return outs[0] if len(outs) == 1 else tuple(outs)
    raise ValueError("unknown function " + name)


def index(a, subs, env, funcs=None):
    a = np.asarray(a)
    if a.ndim == 0 or len(subs) > a.ndim:
        raise OutOfRange("subscript on a scalar / too many subscripts")
    sel = []
    for d, s in enumerate(subs):
        n = a.shape[d]
        if s[0] == "all":
            sel.append(slice(None))
        elif s[0] == "slice":
            lo, hi = int(evn(s[1], env, funcs)), int(evn(s[2], env, funcs))
            if hi >= lo and (lo < 1 or hi > n):
                raise OutOfRange("slice %d:%d outside 1..%d" % (lo, hi, n))
            sel.append(slice(lo - 1, max(hi, lo - 1)))
        else:
            i = evn(s, env, funcs)
            if int(i) != i:
                raise OutOfRange("non-integer subscript")
            i = int(i)
            if i < 1 or i > n:
                raise OutOfRange("subscript %d outside 1..%d" % (i, n))
            sel.append(i - 1)
    r = a[tuple(sel)]
    return float(r) if np.ndim(r) == 0 else r


def residuals(eqs, env, funcs=None):
    """List of segments (one numpy 1-D array per top-level equation): lhs - rhs, elements in no particular order."""
    out = []
    for e in eqs:
        out.append(np.concatenate([np.atleast_1d(np.asarray(x, dtype=float)).ravel() for x in _res(e, env, funcs)] or [np.zeros(0)]))
    return out


def _res(e, env, funcs):
    k = e[0]
    if k == "eq":
        lhs, rhs = e[1], e[2]
        r = evn(rhs, env, funcs)
        if lhs[0] == "tuple":
            l = [evn(x, env, funcs) for x in lhs[1]]
            r = list(r) if isinstance(r, tuple) else [r]
            return [np.asarray(a, dtype=float) - np.asarray(b, dtype=float) for a, b in zip(l, r)]
        l = evn(lhs, env, funcs)
        l, r = np.asarray(l, dtype=float), np.asarray(r, dtype=float)
        if l.shape != r.shape and l.shape == r.shape[::-1]:
            r = r.T
        if l.shape != r.shape and l.size == r.size:
            r = r.reshape(l.shape)
        return [l - r]
    if k == "for":
        lo, hi = int(evn(e[2], env, funcs)), int(evn(e[3], env, funcs))
        out = []
        for i in range(lo, hi + 1):
            env2 = dict(env)
            env2[e[1]] = i
            for b in e[4]:
                out += _res(b, env2, funcs)
        return out
    if k == "ifeq":
        for c, blk in e[1]:
            if evn(c, env, funcs) != 0:
                return [x for b in blk for x in _res(b, env, funcs)]
        return [x for b in e[2] for x in _res(b, env, funcs)]
    raise ValueError(e)


def run_function(f, args, funcs):
    env = {}
    for d, a in zip(f.inputs, args):
        env[d.name] = a
    for d in list(f.outputs) + list(f.protected):
        if d.value is not None:
            env[d.name] = evn(d.value, env, funcs)
        else:
            env[d.name] = np.zeros(tuple(int(x) for x in d.dims)) if d.dims else 0.0
    _run(f.stmts, env, funcs)
    return [env[d.name] for d in f.outputs]


def _run(stmts, env, funcs):
    for s in stmts:
        k = s[0]
        if k == "assign":
            v = evn(s[2], env, funcs)
            t = s[1]
            if t[0] == "var":
                env[t[1]] = v
            else:
                a = np.array(env[t[1]], dtype=float)
                ii = tuple(int(evn(x, env, funcs)) - 1 for x in t[2])
                a[ii] = v
                env[t[1]] = a
        elif k == "forst":
            lo, hi = int(evn(s[2], env, funcs)), int(evn(s[3], env, funcs))
            for i in range(lo, hi + 1):
                env[s[1]] = i
                _run(s[4], env, funcs)
        elif k == "ifst":
            for c, blk in s[1]:
                if evn(c, env, funcs) != 0:
                    _run(blk, env, funcs)
                    break
            else:
                _run(s[2], env, funcs)
        else:
            raise ValueError(s)


def same_multiset(a, b, rtol=1e-9):
    a, b = np.sort(np.asarray(a, dtype=float).ravel()), np.sort(np.asarray(b, dtype=float).ravel())
    if a.shape != b.shape:
        return False
    return bool(np.all(np.abs(a - b) <= rtol * np.maximum(1.0, np.maximum(np.abs(a), np.abs(b)))))


V = lambda name: ("var", name)  # noqa: E731
N = lambda x: ("num", str(x))  # noqa: E731


def B(op, l, r):
    return ("bin", op, l, r)
