"""Exact rational linear algebra on sparse rows {column: Fraction}: reduced row echelon form, rank,
row-space equality (the two homogeneous/affine systems have the same solutions)."""
from fractions import Fraction


def rref(rows, cols=None):
    rows = [{c: Fraction(v) for c, v in r.items() if v != 0} for r in rows]
    cols = cols or sorted({c for r in rows for c in r}, key=str)
    out = []
    for c in cols:
        piv = None
        for r in rows:
            if r.get(c, 0) != 0:
                piv = r
                break
        if piv is None:
            continue
        rows.remove(piv)
        f = piv[c]
        piv = {k: v / f for k, v in piv.items()}
        for lst in (rows, out):
            for i, r in enumerate(lst):
                g = r.get(c, 0)
                if g != 0:
                    nr = dict(r)
                    for k, v in piv.items():
                        nv = nr.get(k, 0) - g * v
                        if nv == 0:
                            nr.pop(k, None)
                        else:
                            nr[k] = nv
                    lst[i] = nr
        out.append(piv)
        rows = [r for r in rows if r]
    return out, cols


def rank(rows):
    return len(rref(rows)[0])


def same_row_space(a, b):
    """Canonical RREF over the union of columns is unique per row space."""
    cols = sorted({c for r in list(a) + list(b) for c in r}, key=str)
    ra, _ = rref(a, cols)
    rb, _ = rref(b, cols)
    key = lambda rows: sorted(tuple(sorted(((str(c), v) for c, v in r.items()))) for r in rows)  # noqa: E731
    return key(ra) == key(rb)
