"""Tiny Modelica expression AST of our own, printer (minimal / full / doubled parentheses following the
Modelica grammar) and a boring reference evaluator over Python floats / bools.

Nodes are tuples:
    ("num", "1.5e-3")            literal, kept as spelled
    ("bool", True) ("str", "x")
    ("var", "a")
    ("un", op, x)                op in - + not
    ("bin", op, l, r)            + - * / ^ .+ .- .* ./ .^ < <= > >= == <> and or
    ("if", c, t, e)
    ("call", name, (args...))
"""
import math

ADD = ("+", "-", ".+", ".-")
MUL = ("*", "/", ".*", "./")
POW = ("^", ".^")
REL = ("<", "<=", ">", ">=", "==", "<>")

# grammar levels
L_IF, L_OR, L_AND, L_NOT, L_REL, L_ARITH, L_TERM, L_FACTOR, L_PRIMARY = range(9)


def level(n):
    k = n[0]
    if k in ("num", "bool", "str", "var", "call"):
        return L_PRIMARY
    if k == "if":
        return L_IF
    if k == "un":
        return L_NOT if n[1] == "not" else L_ARITH
    op = n[1]
    if op == "or":
        return L_OR
    if op == "and":
        return L_AND
    if op in REL:
        return L_REL
    if op in ADD:
        return L_ARITH
    if op in MUL:
        return L_TERM
    if op in POW:
        return L_FACTOR
    raise ValueError(n)


def is_signed_head(n):
    """Does the minimal text of n start with a unary sign (only legal at the head of an arithmetic expression)?"""
    if n[0] == "un" and n[1] in "+-":
        return True
    if n[0] == "bin" and n[1] in ADD:
        return is_signed_head(n[2])
    return False


def pr(n, mode="min"):
    """mode: min (parentheses only where the Modelica grammar needs them), full, double."""
    if mode == "min":
        return _pmin(n)
    wrap = (lambda s: "(" + s + ")") if mode == "full" else (lambda s: "((" + s + "))")
    return _pfull(n, wrap, top=True)


def _atom(n):
    k = n[0]
    if k == "num":
        return n[1]
    if k == "bool":
        return "true" if n[1] else "false"
    if k == "str":
        return '"' + n[1] + '"'
    if k == "var":
        return n[1]
    return None


def _pfull(n, wrap, top=False):
    a = _atom(n)
    if a is not None:
        return a
    k = n[0]
    if k == "call":
        return "%s(%s)" % (n[1], ", ".join(_pfull(x, wrap, True) for x in n[2]))
    if k == "un":
        s = ("not " if n[1] == "not" else n[1]) + _pfull(n[2], wrap)
    elif k == "bin":
        s = "%s %s %s" % (_pfull(n[2], wrap), n[1], _pfull(n[3], wrap))
    elif k == "if":
        s = "if %s then %s else %s" % (_pfull(n[1], wrap, True), _pfull(n[2], wrap, True), _pfull(n[3], wrap, True))
        return s if top else "(" + s + ")"  # an if needs its parentheses in operand position, once is enough
    return wrap(s)


def _need(n, minlevel, signed_ok=False):
    """Text of n in a position that requires grammar level >= minlevel.  (A leading sign has level
    L_ARITH, and every position that accepts L_ARITH is the head of an arithmetic expression, where the
    sign is legal -- so the level test alone is exact; signed_ok is documentation.)"""
    s = _pmin(n)
    return s if level(n) >= minlevel else "(" + s + ")"


def _pmin(n):
    a = _atom(n)
    if a is not None:
        return a
    k = n[0]
    if k == "call":
        return "%s(%s)" % (n[1], ", ".join(_pmin(x) for x in n[2]))
    if k == "if":
        return "if %s then %s else %s" % (_pmin(n[1]), _pmin(n[2]), _pmin(n[3]))
    if k == "un":
        if n[1] == "not":
            return "not " + _need(n[2], L_REL, signed_ok=True)
        return n[1] + _need(n[2], L_TERM)
    op, l, r = n[1], n[2], n[3]
    if op == "or":
        return "%s or %s" % (_need(l, L_OR, True), _need(r, L_AND, True))
    if op == "and":
        return "%s and %s" % (_need(l, L_AND, True), _need(r, L_NOT, True))
    if op in REL:
        return "%s %s %s" % (_need(l, L_ARITH, True), op, _need(r, L_ARITH, True))
    if op in ADD:
        return "%s %s %s" % (_need(l, L_ARITH, True), op, _need(r, L_TERM))
    if op in MUL:
        return "%s %s %s" % (_need(l, L_TERM), op, _need(r, L_FACTOR))
    if op in POW:
        return "%s %s %s" % (_need(l, L_PRIMARY), op, _need(r, L_PRIMARY))
    raise ValueError(n)


# ---- reference evaluation ---------------------------------------------------------------------------------


class Undefined(Exception):
    """The expression has no (real, finite) value at this point: pole, complex power, overflow."""


def num_value(spelling):
    try:
        return int(spelling)
    except ValueError:
        return float(spelling)


FUNCS = {
    "sin": math.sin,
    "cos": math.cos,
    "tan": math.tan,
    "exp": math.exp,
    "abs": abs,
    "max": max,
    "min": min,
    "sqrt": math.sqrt,
    "log": math.log,
}


def arith(op, a, b):
    op = op.lstrip(".") if len(op) > 1 and op[0] == "." else op
    try:
        if op == "+":
            return a + b
        if op == "-":
            return a - b
        if op == "*":
            return a * b
        if op == "/":
            return a / b
        if op == "^":
            r = a**b
            if isinstance(r, complex):
                raise Undefined()
            return r
    except (ZeroDivisionError, OverflowError):
        raise Undefined()
    raise ValueError(op)


def relop(op, a, b):
    return {"<": a < b, "<=": a <= b, ">": a > b, ">=": a >= b, "==": a == b, "<>": a != b}[op]


def ev(n, env):
    k = n[0]
    if k == "num":
        return num_value(n[1])
    if k in ("bool", "str"):
        return n[1]
    if k == "var":
        return env[n[1]]
    if k == "un":
        v = ev(n[2], env)
        if n[1] == "not":
            return not v
        return -v if n[1] == "-" else +v
    if k == "bin":
        op = n[1]
        if op == "and":
            return bool(ev(n[2], env)) and bool(ev(n[3], env))
        if op == "or":
            return bool(ev(n[2], env)) or bool(ev(n[3], env))
        a, b = ev(n[2], env), ev(n[3], env)
        if op in REL:
            return relop(op, a, b)
        r = arith(op, a, b)
        if isinstance(r, float) and (math.isinf(r) or math.isnan(r)):
            raise Undefined()
        return r
    if k == "if":
        return ev(n[2], env) if ev(n[1], env) else ev(n[3], env)
    if k == "call":
        try:
            return FUNCS[n[1]](*[ev(x, env) for x in n[2]])
        except (ValueError, OverflowError):
            raise Undefined()
    raise ValueError(n)


def ev_total(n, env):
    """Like ev, but both branches of and/or/if are always evaluated for definedness (a pole in an
    untaken branch makes the point unusable for comparing with a non-short-circuiting evaluator)."""
    k = n[0]
    if k == "if":
        c, t, e = ev_total(n[1], env), ev_total(n[2], env), ev_total(n[3], env)
        return t if c else e
    if k == "bin" and n[1] in ("and", "or"):
        a, b = bool(ev_total(n[2], env)), bool(ev_total(n[3], env))
        return (a and b) if n[1] == "and" else (a or b)
    if k == "bin":
        a, b = ev_total(n[2], env), ev_total(n[3], env)
        if n[1] in REL:
            return relop(n[1], a, b)
        r = arith(n[1], a, b)
        if isinstance(r, float) and (math.isinf(r) or math.isnan(r)):
            raise Undefined()
        return r
    if k == "un":
        v = ev_total(n[2], env)
        return (not v) if n[1] == "not" else (-v if n[1] == "-" else +v)
    if k == "call":
        try:
            return FUNCS[n[1]](*[ev_total(x, env) for x in n[2]])
        except (ValueError, OverflowError):
            raise Undefined()
    return ev(n, env)


def nops(n):
    k = n[0]
    if k in ("num", "bool", "str", "var"):
        return 0
    if k == "un":
        return 1 + nops(n[2])
    if k == "bin":
        return 1 + nops(n[2]) + nops(n[3])
    if k == "if":
        return 1 + nops(n[1]) + nops(n[2]) + nops(n[3])
    if k == "call":
        return 1 + sum(nops(x) for x in n[2])
    raise ValueError(n)


def typ(n):
    """'R' or 'B' or None if ill-typed."""
    k = n[0]
    if k in ("num",):
        return "R"
    if k == "bool":
        return "B"
    if k == "var":
        return "B" if n[1] in ("p", "q", "r", "s") else "R"
    if k == "un":
        t = typ(n[2])
        if n[1] == "not":
            return "B" if t == "B" else None
        return "R" if t == "R" else None
    if k == "bin":
        a, b = typ(n[2]), typ(n[3])
        if n[1] in ("and", "or"):
            return "B" if a == b == "B" else None
        if n[1] in REL:
            return "B" if a == b == "R" else None
        return "R" if a == b == "R" else None
    if k == "if":
        c, a, b = typ(n[1]), typ(n[2]), typ(n[3])
        return a if c == "B" and a == b and a is not None else None
    if k == "call":
        return "R" if all(typ(x) == "R" for x in n[2]) else None
    return None


def rotations(n):
    """Other well-formed readings of the *same token sequence* at places where the minimal printer wrote no
    parentheses: P(X(A op2 B) op1 C) <-> A op2 (B op1 C), sign/not hoisted over a binary operand.  Used only
    to measure how many enumerated cases are sensitive to grouping."""
    out = []
    k = n[0]
    if k == "bin":
        op, l, r = n[1], n[2], n[3]
        if l[0] == "bin" and level(l) >= _left_min(op):  # no parens were printed round l
            out.append(("bin", l[1], l[2], ("bin", op, l[3], r)))
        if r[0] == "bin" and level(r) >= _right_min(op):
            out.append(("bin", r[1], ("bin", op, l, r[2]), r[3]))
        if l[0] == "un" and _need(l, _left_min(op), True) == _pmin(l):
            out.append(("un", l[1], ("bin", op, l[2], r)))
        for i, c in ((2, l), (3, r)):
            for alt in rotations(c):
                out.append(n[:i] + (alt,) + n[i + 1 :])
    elif k == "un":
        x = n[2]
        if x[0] == "bin" and _pmin(n) == n[1].replace("not", "not ") + _pmin(x):
            out.append(("bin", x[1], ("un", n[1], x[2]), x[3]))
        for alt in rotations(x):
            out.append(("un", n[1], alt))
    elif k == "if":
        for i in (1, 2, 3):
            for alt in rotations(n[i]):
                out.append(n[:i] + (alt,) + n[i + 1 :])
    return [o for o in out if typ(o) is not None]


def _left_min(op):
    if op == "or":
        return L_OR
    if op == "and":
        return L_AND
    if op in REL or op in ADD:
        return L_ARITH
    if op in MUL:
        return L_TERM
    return L_PRIMARY


def _right_min(op):
    if op == "or":
        return L_AND
    if op == "and":
        return L_NOT
    if op in REL:
        return L_ARITH
    if op in ADD:
        return L_TERM
    if op in MUL:
        return L_FACTOR
    return L_PRIMARY
