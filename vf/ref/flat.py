"""Reference flattener: a tiny class-hierarchy language of our own, a printer to Modelica text (with a
choice of modification spellings) and a deliberately boring flattener with Modelica semantics:

* instance tree by plain recursion, one flat variable per elementary leaf named by its dotted path;
* inherited elements (extends, in clause order, before the class's own elements);
* modification merge "outer wins": component above > ... > extends clause > declaration > type definition;
* a modification expression is resolved in the scope where it is written;
* dotted names are nested modifications (the spelling never matters to the reference);
* input / output survive only at the top level; other prefixes are kept;
* equations of every instance with every reference renamed to the flat name it denotes;
* connection sets (union-find over (connector instance, inside/outside)) -> potential equalities, signed
  flow sums, zero equations for unconnected flows.

Expressions are vf.ref.expr / vf.ref.mast tuples; ("var", "a.b.c") is a dotted reference.
"""
from collections import OrderedDict

from vf.ref import mast as M

ELEMENTARY = ("Real", "Integer", "Boolean", "String")
ATTRS = ("value", "start", "min", "max", "nominal", "fixed", "unit")


class Mod:
    """One node of a modification tree:  name [= value] [(subs...)]."""

    def __init__(self, name, value=None, subs=(), each=False):
        self.name, self.value, self.subs, self.each = name, value, list(subs), each

    def copy(self):
        return Mod(self.name, self.value, [s.copy() for s in self.subs], self.each)


def mod_path(path, value):
    """Mod tree for the dotted path a.b.c = value."""
    names = path.split(".") if isinstance(path, str) else list(path)
    m = Mod(names[-1], value)
    for n in reversed(names[:-1]):
        m = Mod(n, None, [m])
    return m


class Comp:
    def __init__(self, name, type="Real", prefixes=(), dims=(), mods=(), value=None, comment=""):
        self.name, self.type, self.prefixes, self.dims = name, type, tuple(prefixes), tuple(dims)
        self.mods, self.value = list(mods), value


class Ext:
    def __init__(self, base, mods=()):
        self.base, self.mods = base, list(mods)


class Cls:
    def __init__(self, name, kind="model", comps=(), exts=(), classes=(), eqs=(), ieqs=(), base=None, mods=()):
        self.name, self.kind = name, kind
        self.comps, self.exts, self.classes = list(comps), list(exts), list(classes)
        self.eqs, self.ieqs = list(eqs), list(ieqs)
        self.base, self.mods = base, list(mods)  # short definition: type X = base(mods)
        self.parent = None

    def comp(self, name):
        for c in self.comps:
            if c.name == name:
                return c
        raise KeyError(name)

    def cls(self, name):
        for c in self.classes:
            if c.name == name:
                return c
        raise KeyError(name)


class Lib:
    def __init__(self, classes):
        self.classes = list(classes)
        self.name = None
        self.parent = None
        self.kind = "root"
        self.comps, self.exts = [], []
        link(self)

    def cls(self, path):
        c = self
        for n in path.split("."):
            c = next(x for x in c.classes if x.name == n)
        return c

    def text(self, spelling=None):
        return "\n".join(pcls(c, "", spelling) for c in self.classes)


def link(c):
    for k in c.classes:
        k.parent = c
        link(k)


# ---- printing -------------------------------------------------------------------------------------------


class Spelling:
    """Decides, for each single-child link parent -> child of a modification tree, dot or parentheses.
    `choices` maps an occurrence counter to True (dot) / False (parentheses); default comes from `default`.
    default "dot-attr-paren": dots between components, parentheses before an attribute (pymoca's test style:
    a.x(start = 1), a.k = 2); "dotted": dots everywhere; "nested": parentheses everywhere."""

    def __init__(self, default="dot-attr-paren", flips=()):
        self.default, self.flips = default, frozenset(flips)
        self.n = 0
        self.links = 0

    def dot(self, child):
        i = self.n
        self.n += 1
        self.links = max(self.links, self.n)
        if self.default == "dotted":
            d = True
        elif self.default == "nested":
            d = False
        else:
            d = not (child.name in ATTRS and child.name != "value")
        return (not d) if i in self.flips else d


def pmod(m, sp):
    """Text of one modification node."""
    s = ("each " if m.each else "") + m.name
    return s + _ptail(m, sp)


def _ptail(m, sp):
    if m.subs and m.value is None and len(m.subs) == 1 and sp.dot(m.subs[0]):
        c = m.subs[0]
        return "." + c.name + _ptail(c, sp)
    s = ""
    if m.subs:
        s += "(" + ", ".join(pmod(c, sp) for c in m.subs) + ")"
    if m.value is not None:
        s += " = " + M.pe(m.value)
    return s


def pmods(mods, sp):
    return "(" + ", ".join(pmod(m, sp) for m in mods) + ")" if mods else ""


def pcls(c, ind="", spelling=None):
    sp = spelling or Spelling()
    if c.base is not None:
        return "%s%s %s = %s%s;\n" % (ind, c.kind, c.name, c.base, pmods(c.mods, sp))
    out = ["%s%s %s" % (ind, c.kind, c.name)]
    for e in c.exts:
        out.append("%s  extends %s%s;" % (ind, e.base, pmods(e.mods, sp)))
    for k in c.classes:
        out.append(pcls(k, ind + "  ", sp).rstrip("\n"))
    for d in c.comps:
        s = ind + "  " + (" ".join(d.prefixes) + " " if d.prefixes else "") + d.type + " " + d.name
        if d.dims:
            s += "[%s]" % ", ".join(str(x) for x in d.dims)
        s += pmods(d.mods, sp)
        if d.value is not None:
            s += " = " + M.pe(d.value)
        out.append(s + ";")
    if c.ieqs:
        out.append(ind + "initial equation")
        for e in c.ieqs:
            out += _peq(e, ind + "  ")
    if c.eqs:
        out.append(ind + "equation")
        for e in c.eqs:
            out += _peq(e, ind + "  ")
    out.append("%send %s;" % (ind, c.name))
    return "\n".join(out) + "\n"


def _peq(e, ind):
    if e[0] == "connect":
        return ["%sconnect(%s, %s);" % (ind, e[1], e[2])]
    return M.peq(e, ind)


# ---- reference flattening ----------------------------------------------------------------------------------


class FVar:
    def __init__(self, name, type, prefixes, dims):
        self.name, self.type, self.prefixes, self.dims = name, type, frozenset(prefixes), tuple(dims)
        self.attrs = {}  # attr -> flat expression
        self.flow = "flow" in prefixes


class Flat:
    def __init__(self):
        self.vars = OrderedDict()
        self.eqs, self.ieqs = [], []
        self.connectors = []  # (flat path, connector class) of every connector instance
        self.connects = []  # (path a, inside a, path b, inside b)


class Unsupported(Exception):
    pass


def lookup(scope, name):
    """Class lookup by Modelica's lexical rule: first identifier in the scope and its enclosing classes
    (own and inherited nested classes), rest by descent."""
    parts = name.split(".")
    s = scope
    while s is not None:
        c = _member_class(s, parts[0])
        if c is not None:
            for p in parts[1:]:
                c = _member_class(c, p)
                if c is None:
                    raise KeyError(name)
            return c
        s = s.parent
    raise KeyError(name)


def _member_class(c, name, seen=()):
    for k in c.classes:
        if k.name == name:
            return k
    for e in getattr(c, "exts", ()):
        if e.base in ELEMENTARY:
            continue
        b = lookup(c.parent, e.base) if c.parent is not None else None
        if b is not None and b not in seen:
            r = _member_class(b, name, seen + (c,))
            if r is not None:
                return r
    return None


def rename(n, prefix, local=None):
    """Prefix every reference in an expression / equation with the instance prefix it is written in."""
    local = local or ()
    if isinstance(n, tuple):
        if n and n[0] == "var":
            head = n[1].split(".")[0]
            if head in local or n[1] == "time":
                return n
            return ("var", prefix + n[1])
        if n and n[0] == "idx":
            return ("idx", prefix + n[1] if n[1].split(".")[0] not in local else n[1], rename(n[2], prefix, local))
        if n and n[0] == "for":
            return ("for", n[1], rename(n[2], prefix, local), rename(n[3], prefix, local), rename(n[4], prefix, tuple(local) + (n[1],)))
        if n and n[0] in ("num", "bool", "str"):
            return n
        if n and n[0] in ("bin", "un", "call", "if", "der", "arr", "eq", "ifeq", "slice", "all", "tuple"):
            if n[0] in ("bin", "un", "call"):
                return (n[0], n[1]) + tuple(rename(x, prefix, local) for x in n[2:])
            return (n[0],) + tuple(rename(x, prefix, local) for x in n[1:])
        return tuple(rename(x, prefix, local) for x in n)
    if isinstance(n, list):
        return [rename(x, prefix, local) for x in n]
    return n


def elements(cls, seen=()):
    """Inherited-then-own elements of a class: list of (Comp, defining class, [extends-level Mod lists,
    most derived first]) and the equations (own and inherited)."""
    if cls in seen:
        raise Unsupported("recursive extends")
    comps, eqs, ieqs = [], [], []
    for e in cls.exts:
        if e.base in ELEMENTARY:
            raise Unsupported("extends of an elementary type in a long class")
        b = lookup(cls.parent, e.base)
        bc, be, bi = elements(b, seen + (cls,))
        for comp, dcls, levels in bc:
            comps.append((comp, dcls, [e.mods] + levels))
        eqs += be
        ieqs += bi
    own = {c.name for c in cls.comps}
    comps = [x for x in comps if x[0].name not in own]  # a redeclared identical element: the own one stands
    for c in cls.comps:
        comps.append((c, cls, []))
    eqs += [(q, cls) for q in cls.eqs]
    ieqs += [(q, cls) for q in cls.ieqs]
    return comps, eqs, ieqs


def elementary_of(scope, tname, seen=()):
    """If tname denotes Real/Integer/... or a short type definition chain ending in one: (builtin name,
    [Mod lists, outermost (nearest to the use) first]); else None."""
    if tname in ELEMENTARY:
        return tname, []
    c = lookup(scope, tname)
    if c.base is not None:
        r = elementary_of(c.parent, c.base)
        if r is None:
            raise Unsupported("short class definition of a non-elementary class")
        return r[0], [c.mods] + r[1]
    return None


def _sub(mods, name):
    return [m for m in mods if m.name == name]


def flatten(lib, clsname):
    top = lib.cls(clsname)
    flat = Flat()
    _inst(top, "", [], flat, True)
    _connections(flat)
    return flat


def _inst(cls, prefix, incoming, flat, top):
    """incoming: list of (Mod list, scope prefix), outermost first -- modifications addressed to the
    elements of this instance."""
    comps, eqs, ieqs = elements(cls)
    for comp, dcls, ext_levels in comps:
        # modification nodes addressed to this component, outermost first, with the prefix of the
        # instance whose class text contains the expression
        nodes = []
        for mods, sp in incoming:
            nodes += [(m, sp) for m in _sub(mods, comp.name)]
        for mods in ext_levels:
            nodes += [(m, prefix) for m in _sub(mods, comp.name)]
        nodes.append((Mod(comp.name, comp.value, comp.mods), prefix))
        el = elementary_of(dcls, comp.type)
        name = prefix + comp.name
        if el is not None:
            builtin, tlevels = el
            pre = set(comp.prefixes)
            if not top:
                pre -= {"input", "output"}
            v = FVar(name, builtin, pre, comp.dims)
            for a in ATTRS:
                for m, sp in nodes:
                    if a == "value":
                        if m.value is not None:
                            v.attrs[a] = rename(m.value, sp)
                            break
                    else:
                        s = [x for x in m.subs if x.name == a and x.value is not None]
                        if s:
                            v.attrs[a] = rename(s[0].value, sp)
                            break
                else:
                    for mods in tlevels:  # type definitions: lowest priority, written at global scope
                        s = [x for x in mods if x.name == a and x.value is not None]
                        if s:
                            v.attrs[a] = s[0].value
                            break
            flat.vars[name] = v
        else:
            tc = lookup(dcls, comp.type)
            if comp.dims:
                raise Unsupported("arrays of components")
            if tc.kind == "connector":
                flat.connectors.append((name, tc, prefix))
            _inst(tc, name + ".", [(m.subs, sp) for m, sp in nodes], flat, False)
    for q, dcls in eqs:
        if q[0] == "connect":
            flat.connects.append((prefix + q[1], "." in q[1], prefix + q[2], "." in q[2]))
        else:
            flat.eqs.append(rename(q, prefix))
    for q, dcls in ieqs:
        flat.ieqs.append(rename(q, prefix))


def _connections(flat):
    """Connection sets over (connector path, inside?) and the equations they generate, as linear forms
    {var: coeff} (= 0)."""
    flat.conn_rows = []
    if not flat.connectors:
        return
    cvars = {}
    for path, tc, _ in flat.connectors:
        cvars[path] = [(n[len(path) + 1 :], v) for n, v in flat.vars.items() if n.startswith(path + ".")]
    parent = {}

    def find(x):
        parent.setdefault(x, x)
        while parent[x] != x:
            parent[x] = parent[parent[x]]
            x = parent[x]
        return x

    for a, ia, b, ib in flat.connects:
        if a not in cvars or b not in cvars:
            raise Unsupported("connect of something that is not a connector instance: %s, %s" % (a, b))
        parent[find((a, ia))] = find((b, ib))
    sets = OrderedDict()
    for x in list(parent):
        sets.setdefault(find(x), []).append(x)
    connected_flows = set()
    for members in sets.values():
        members = sorted(set(members))
        first = members[0]
        for vn, v in cvars[first[0]]:
            if v.prefixes & {"parameter", "constant"}:
                continue
            if v.flow:
                row = {}
                for p, inside in members:
                    row[p + "." + vn] = row.get(p + "." + vn, 0) + (1 if inside else -1)
                    connected_flows.add(p + "." + vn)
                flat.conn_rows.append(row)
            else:
                for p, inside in members[1:]:
                    flat.conn_rows.append({first[0] + "." + vn: 1, p + "." + vn: -1})
    for n, v in flat.vars.items():
        if v.flow and n not in connected_flows:
            flat.conn_rows.append({n: 1})
