"""pymoca AST -> our tuple form (vf.ref.expr / vf.ref.mast node kinds), plus a canonical form in which
both sides can be compared structurally: numeric literals by value, references by dotted name."""
from fractions import Fraction

OPS = {"+", "-", "*", "/", "^", ".+", ".-", ".*", "./", ".^", "<", "<=", ">", ">=", "==", "<>", "and", "or", "not"}


def conv(n):
    from pymoca import ast

    if isinstance(n, ast.Symbol):
        return ("var", n.name)
    if isinstance(n, ast.Primary):
        v = n.value
        if isinstance(v, bool):
            return ("bool", v)
        if isinstance(v, (int, float)):
            return ("num", repr(v))
        if v is None:
            return ("none",)
        return ("str", v)
    if isinstance(n, ast.ComponentRef):
        name = ".".join(n.to_tuple())
        subs = []
        c = n
        while True:
            for lst in c.indices:
                for i in lst:
                    if i is not None:
                        subs.append(_sub(i))
            if not c.child:
                break
            c = c.child[0]
        return ("idx", name, tuple(subs)) if subs else ("var", name)
    if isinstance(n, ast.IfExpression):
        r = conv(n.expressions[-1])
        for c, e in reversed(list(zip(n.conditions, n.expressions))):
            r = ("if", conv(c), conv(e), r)
        return r
    if isinstance(n, ast.Array):
        return ("arr", tuple(conv(x) for x in n.values))
    if isinstance(n, ast.Expression):
        op = n.operator
        args = [conv(a) for a in n.operands]
        if isinstance(op, ast.ComponentRef):
            return ("call", ".".join(op.to_tuple()), tuple(args))
        if op == "der":
            return ("der", args[0])
        if op in OPS:
            if len(args) == 1:
                return ("un", op, args[0])
            r = ("bin", op, args[0], args[1])
            for a in args[2:]:
                r = ("bin", op, r, a)
            return r
        return ("call", str(op), tuple(args))
    if isinstance(n, ast.Equation):
        return ("eq", conv(n.left), conv(n.right))
    if isinstance(n, ast.ConnectClause):
        return ("connect", ".".join(n.left.to_tuple()), ".".join(n.right.to_tuple()))
    if isinstance(n, ast.ForEquation):
        body = [conv(e) for e in n.equations]
        for ix in reversed(n.indices):
            sl = ix.expression
            body = [("for", ix.name, conv(sl.start), conv(sl.stop), body)]
        return body[0]
    if isinstance(n, ast.IfEquation):
        blocks = [[conv(e) for e in b] for b in n.blocks]
        conds = [conv(c) for c in n.conditions]
        els = blocks[len(conds)] if len(blocks) > len(conds) else []
        return ("ifeq", [(c, b) for c, b in zip(conds, blocks)], els)
    if isinstance(n, ast.Slice):
        return _sub(n)
    if isinstance(n, list):
        return ("tuple", tuple(conv(x) for x in n))
    raise TypeError("unexpected node %r" % (n,))


def _sub(i):
    from pymoca import ast

    if isinstance(i, ast.Slice):
        if isinstance(i.start, ast.Primary) and i.start.value is None:
            return ("all",)
        return ("slice", conv(i.start), conv(i.stop))
    return conv(i)


def canon(n):
    """Canonical comparable form of a tuple tree (ours or converted): numbers by value."""
    if isinstance(n, tuple):
        if n and n[0] == "num":
            return ("num", float(n[1]))
        if n and n[0] == "idx" and not n[2]:
            return ("var", n[1])
        return tuple(canon(x) for x in n)
    if isinstance(n, list):
        return tuple(canon(x) for x in n)
    return n


class NotLinear(Exception):
    pass


def linear(n):
    """{var: Fraction, 1: const} of an expression that is linear in its references."""
    k = n[0]
    if k == "num":
        return {1: Fraction(n[1]) if not isinstance(n[1], float) else Fraction(n[1]).limit_denominator(10**9)}
    if k == "var":
        return {n[1]: Fraction(1)}
    if k == "un" and n[1] in "+-":
        a = linear(n[2])
        return a if n[1] == "+" else {v: -c for v, c in a.items()}
    if k == "bin" and n[1] in ("+", "-"):
        a, b = dict(linear(n[2])), linear(n[3])
        for v, c in b.items():
            a[v] = a.get(v, 0) + (c if n[1] == "+" else -c)
        return a
    if k == "bin" and n[1] == "*":
        a, b = linear(n[2]), linear(n[3])
        if set(a) <= {1}:
            return {v: c * a.get(1, 0) for v, c in b.items()}
        if set(b) <= {1}:
            return {v: c * b.get(1, 0) for v, c in a.items()}
    raise NotLinear(repr(n))


def eq_row(e):
    """Linear form of lhs - rhs of an ("eq", l, r)."""
    a, b = dict(linear(e[1])), linear(e[2])
    for v, c in b.items():
        a[v] = a.get(v, 0) - c
    return {v: c for v, c in a.items() if c != 0}
