"""setup_cmd: nothing to build (pure Python over /repo's working tree); verify the tool-chain is importable."""
import sys


def main():
    from vf.core import common

    common.setup_subject()
    import casadi, antlr4, numpy, sympy  # noqa
    import pymoca, pymoca.parser, pymoca.tree  # noqa
    import pymoca.backends.casadi.api  # noqa

    print("vf selfcheck ok: pymoca", pymoca.__version__, "from", pymoca.__file__)
    return 0


if __name__ == "__main__":
    sys.exit(main())
