#!/bin/bash
# usage: tools/mutrun.sh <patch.diff> <ID> [tier]   -- run a check against a scratch worktree of /repo with the patch applied
set -u
patch="$(realpath "$1")"; id="$2"; tier="${3:-quick}"
wt="$(mktemp -d /tmp/vfmut.XXXXXX)"
git -C /repo worktree add -q --detach "$wt" HEAD >/dev/null 2>&1 || { echo "worktree failed"; exit 9; }
if ! git -C "$wt" apply "$patch"; then echo "PATCH DOES NOT APPLY"; git -C /repo worktree remove --force "$wt"; exit 9; fi
cd /verif
VERIF_REPO="$wt" /venv/bin/python -m vf.run "$id" --tier "$tier" 2>&1 | tail -${MUT_TAIL:-8}
rc=${PIPESTATUS[0]}
git -C /repo worktree remove --force "$wt"
rm -rf "$wt"
echo "mutrun rc=$rc"
exit $rc
