#!/venv/bin/python
"""usage: tools/set_reg.py CXX text|note|technique < file-with-new-string  -- appends an override to vf/registry.py"""
import sys
pid, field = sys.argv[1], sys.argv[2]
assert field in ("text", "note", "technique")
val = " ".join(sys.stdin.read().split())
if val.startswith('"') and val.endswith('"'):
    val = val[1:-1]
with open('/verif/vf/registry.py', 'a') as f:
    f.write('\nCHECKS["%s"]["%s"] = (\n' % (pid, field))
    # wrap at ~110 chars
    words, line = val.split(" "), ""
    for w in words:
        if len(line) + len(w) + 1 > 110:
            f.write("    %r\n" % (line + " "))
            line = w
        else:
            line = (line + " " + w) if line else w
    f.write("    %r\n)\n" % line)
print("override", pid, field, len(val), "chars")
