"""Append the reg(...) block of out/notes/<ID>.md to vf/registry.py (first python code block containing reg()."""
import re, sys
for pid in sys.argv[1:]:
    s = open('/verif/out/notes/%s.md' % pid).read()
    blocks = re.findall(r"```python\n(.*?)```", s, re.S)
    b = next(b for b in blocks if b.lstrip().startswith("reg("))
    reg = open('/verif/vf/registry.py').read()
    assert 'reg(\n    "%s"' % pid not in reg, pid
    compile(b, pid, 'exec')
    open('/verif/vf/registry.py', 'a').write("\n" + b.strip() + "\n")
    print("registered", pid)
