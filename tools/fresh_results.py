"""Dump the fresh-parse result of every request of C05's libraries (for before/after comparison of a fix)."""
import hashlib, json, sys
from vf.core import common
common.setup_subject(); common.isolate_process(); common.quiet_logging()
from vf.checks import c05
c05._init("thorough")
def job(lib):
    out = {}
    for kind in ("flatten", "casadi", "sympy", "xml"):
        for cls in c05.classes_of(lib):
            r = c05.do_request(c05._parse(lib), kind, cls)
            out["%s|%s|%s" % (lib, kind, cls)] = [r[0], r[1] if r[0] == "exc" else hashlib.sha1(r[1].encode()).hexdigest()]
    return out
with common.Pool(init=c05._init, initargs=("thorough",)) as pool:
    res = {}
    for d in pool.map(job, sorted(c05._TEXTS), chunksize=1):
        res.update(d)
json.dump(res, open(sys.argv[1], "w"), indent=0, sort_keys=True)
print(len(res), "results")
