#!/bin/bash
# usage: tools/seedall.sh ID...   -- confirm and check every /tmp/seed/out/<ID>/patch*.diff against check <ID>
cd /verif
for id in "$@"; do
  for p in /tmp/seed/out/$id/patch.diff /tmp/seed/out/$id/patch2.diff; do
    [ -f "$p" ] || continue
    d="${p/patch/demo}"; d="${d%.diff}.py"
    echo "=== $id $(basename $p)"
    tools/seedcheck.sh "$p" "$d" "$id" quick
  done
done
