#!/bin/bash
# usage: tools/seedall.sh ID...   -- confirm and check every /tmp/seed/out/<ID>/patch*.diff against check <ID>
cd /verif
base="${SEEDBASE:-/tmp/seed}"
for id in "$@"; do
  for p in $base/out/$id/patch.diff $base/out/$id/patch2.diff; do
    [ -f "$p" ] || continue
    d="${p/patch/demo}"; d="${d%.diff}.py"
    echo "=== $id $(basename $p)"
    tools/seedcheck.sh "$p" "$d" "$id" quick
  done
done
