#!/bin/bash
# usage: tools/mutall.sh <ID> [tier]  -- run every mutants/<ID>_*.diff through mutrun.sh, one summary line each
id="$1"; tier="${2:-quick}"
cd /verif
for m in mutants/${id}_*.diff; do
  out=$(MUT_TAIL=400 tools/mutrun.sh "$m" "$id" "$tier" 2>&1)
  rc=$(echo "$out" | grep -o 'mutrun rc=[0-9]*' | tail -1)
  sigs=$(echo "$out" | grep -E '^  -- ' | sed 's/^  -- \([^ ]*\).*/\1/' | sort -u | head -4 | tr '\n' ' ')
  echo "$(basename $m .diff): $rc  $sigs"
done
