#!/venv/bin/python
"""Import confirmed seeded changes from /tmp/seed/out into /verif/seeded/<id>-<n>/ using the seedall logs.
usage: tools/seedimport.py out/logs/seed_*.log"""
import json, os, re, shutil, sys
BASE = os.environ.get("SEEDBASE", "/tmp/seed")
OFFSET = int(os.environ.get("SEEDOFFSET", "0"))

res = {}
cur = None
for path in sys.argv[1:]:
    for line in open(path):
        m = re.match(r"=== (C\d\d) (patch2?)\.diff", line)
        if m:
            cur = (m.group(1), 1 if m.group(2) == "patch" else 2)
            res.setdefault(cur, {"checks": {}})
            continue
        if cur is None:
            continue
        r = res[cur]
        m = re.match(r"demo without change: rc=(\d+)", line)
        if m: r["demo_without"] = int(m.group(1))
        m = re.match(r"demo with change: rc=(\d+)", line)
        if m: r["demo_with"] = int(m.group(1))
        m = re.match(r"baseline: (\d+)/(\d+)", line)
        if m: r["baseline"] = "%s/%s" % (m.group(1), m.group(2))
        if "PATCH DOES NOT APPLY" in line: r["applies"] = False
        m = re.match(r"check (C\d\d) \((\w+)\): rc=(\d+) ?(.*)", line)
        if m: r["checks"]["%s:%s" % (m.group(1), m.group(2))] = {"rc": int(m.group(3)), "signatures": m.group(4).split()}
for (pid, n), r in sorted(res.items()):
    src = "%s/out/%s" % (BASE, pid)
    suf = "" if n == 1 else "2"
    ok = r.get("demo_without") == 0 and r.get("demo_with") == 1 and r.get("baseline") == "131/131"
    dst = "/verif/seeded/%s-%d" % (pid, n + OFFSET)
    if not ok:
        print("NOT CONFIRMED", pid, n, r)
        continue
    os.makedirs(dst, exist_ok=True)
    shutil.copy(os.path.join(src, "patch%s.diff" % suf), os.path.join(dst, "patch.diff"))
    shutil.copy(os.path.join(src, "demo%s.py" % suf), os.path.join(dst, "demo.py"))
    meta = {}
    try:
        meta = json.load(open(os.path.join(src, "meta%s.json" % suf)))
    except Exception as e:
        meta = {"property": pid, "summary": "(meta file unreadable: %s)" % e}
    old = {}
    if os.path.exists(os.path.join(dst, "meta.json")):
        old = json.load(open(os.path.join(dst, "meta.json")))
    meta["property"] = pid
    meta["confirmed"] = {
        "how": "tools/seedcheck.sh in a scratch worktree of /repo HEAD: demo.py <worktree> before and after `git apply patch.diff`, then tools/baseline.sh <worktree> (pinned 131 tests)",
        "demo_without_change_rc": r["demo_without"], "demo_with_change_rc": r["demo_with"], "baseline": r["baseline"],
    }
    checks = old.get("checks_run", {})
    checks.update(r["checks"])
    meta["checks_run"] = checks
    json.dump(meta, open(os.path.join(dst, "meta.json"), "w"), indent=1)
    print("imported", pid, n, {k: v["rc"] for k, v in checks.items()})
