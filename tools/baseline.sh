#!/bin/bash
# run pinned suite on /repo (or $1) and compare passing set with BASELINE.json stable_pass
R="${1:-/repo}"
# the editable install always resolves pymoca to /repo/src: put the tree under test first on the path
export PYTHONPATH="$R/src${PYTHONPATH:+:$PYTHONPATH}"
cd "$R" && /venv/bin/python -m pytest -ra -q -p no:cacheprovider --timeout=900 --continue-on-collection-errors --junitxml=/tmp/vf_junit_$$.xml >/tmp/vf_pytest_$$.log 2>&1
/venv/bin/python - "$$" <<'PY'
import json, sys, xml.etree.ElementTree as ET
pid=sys.argv[1]
base=set(json.load(open('/root/.vp/BASELINE.json'))['stable_pass'])
t=ET.parse('/tmp/vf_junit_%s.xml'%pid)
passed=set()
for tc in t.iter('testcase'):
    if not any(c.tag in('failure','error','skipped') for c in tc):
        passed.add(tc.get('classname')+'::'+tc.get('name'))
missing=sorted(base-passed)
print("baseline: %d/%d stable tests pass; extra passing: %d"%(len(base&passed),len(base),len(passed-base)))
for m in missing: print("  MISSING", m)
sys.exit(1 if missing else 0)
PY
rc=$?
rm -f /tmp/vf_junit_$$.xml /tmp/vf_pytest_$$.log
exit $rc
