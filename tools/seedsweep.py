#!/venv/bin/python
"""Final sweep: run each seeded change's own check (quick tier; thorough for the ids given with --thorough) against a
scratch worktree of /repo HEAD with the patch applied, and record the result in seeded/<id>/meta.json under
"final".  usage: tools/seedsweep.py [--only C01-1,C02-2] [--thorough C19-2] [--also C25-2=C06]"""
import argparse, json, os, re, subprocess, sys, tempfile

ap = argparse.ArgumentParser()
ap.add_argument("--only", default="")
ap.add_argument("--thorough", default="")
ap.add_argument("--also", default="", help="extra checks per seed: C25-2=C06,C13-2=C14")
ap.add_argument("--jobs", default="8")
a = ap.parse_args()
only = set(filter(None, a.only.split(",")))
thorough = set(filter(None, a.thorough.split(",")))
also = {}
for item in filter(None, a.also.split(",")):
    k, v = item.split("=")
    also.setdefault(k, []).append(v)
for sid in sorted(os.listdir("/verif/seeded")):
    d = os.path.join("/verif/seeded", sid)
    if not os.path.isdir(d) or (only and sid not in only):
        continue
    meta = json.load(open(os.path.join(d, "meta.json")))
    prop = meta["property"]
    checks = [prop] + also.get(sid, [])
    tier = "thorough" if sid in thorough else "quick"
    env = dict(os.environ, VERIF_JOBS=a.jobs)
    out = subprocess.run(["/verif/tools/seedcheck.sh", os.path.join(d, "patch.diff"), "-", ",".join(checks), tier, "skipverify"], capture_output=True, text=True, env=env).stdout
    final = meta.setdefault("final", {})
    for m in re.finditer(r"check (C\d\d) \((\w+)\): rc=(\d+) ?(.*)", out):
        final["%s:%s" % (m.group(1), m.group(2))] = {"rc": int(m.group(3)), "signatures": m.group(4).split()[:3]}
    if "DOES NOT APPLY" in out:
        final["error"] = "patch does not apply to /repo HEAD"
    head = subprocess.run(["git", "-C", "/repo", "log", "--format=%h", "-1"], capture_output=True, text=True).stdout.strip()
    final["repo_head"] = head
    json.dump(meta, open(os.path.join(d, "meta.json"), "w"), indent=1)
    print(sid, {k: v.get("rc") if isinstance(v, dict) else v for k, v in final.items()}, flush=True)
