"""mk(name, path, old, new): write /verif/mutants/<name>.diff replacing one exact occurrence in /repo/<path>."""
import os, subprocess, tempfile

def mk(name, path, old, new, count=1):
    src = open('/repo/' + path).read()
    assert src.count(old) == count, (name, "occurrences:", src.count(old))
    d = tempfile.mkdtemp()
    for side, text in (('a', src), ('b', src.replace(old, new))):
        os.makedirs(os.path.join(d, side, os.path.dirname(path)), exist_ok=True)
        open(os.path.join(d, side, path), 'w').write(text)
    out = subprocess.run(['diff', '-u', 'a/' + path, 'b/' + path], cwd=d, capture_output=True, text=True).stdout
    subprocess.run(['rm', '-rf', d])
    open('/verif/mutants/%s.diff' % name, 'w').write(out)
    print(name, len(out.splitlines()), 'lines')
