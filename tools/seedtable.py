#!/venv/bin/python
"""Markdown table of the seeded changes and which checks report them (from seeded/*/meta.json)."""
import json, os
rows = []
for sid in sorted(os.listdir("/verif/seeded")):
    p = os.path.join("/verif/seeded", sid, "meta.json")
    if not os.path.exists(p):
        continue
    m = json.load(open(p))
    first = m.get("checks_run", {})
    fin = m.get("final", {})
    def fmt(d):
        out = []
        for k, v in d.items():
            if isinstance(v, dict):
                out.append("%s %s" % (k, "**reports**" if v.get("rc") == 1 else ("silent" if v.get("rc") == 0 else "error rc=%s" % v.get("rc"))))
        return "; ".join(out) or "-"
    summ = " ".join(str(m.get("summary", "")).split())
    if len(summ) > 230:
        summ = summ[:227] + "..."
    sup = " (superseded by a later fix: can no longer manifest)" if "superseded" in m.get("confirmed", {}) else ""
    rows.append("| %s | %s | %s | %s |" % (sid, summ.replace("|", "/") + sup, fmt({k: v for k, v in first.items() if "after" not in k}), fmt(fin)))
print("| seed | change (summary by its author) | first run (check as it was) | final sweep |")
print("|---|---|---|---|")
print("\n".join(rows))
