#!/bin/bash
# usage: tools/g4mut.sh <g4-only.diff> <out.diff> : apply a grammar patch in a scratch worktree, regenerate the parser, emit the full patch
set -e
in="$(realpath "$1")"; out="$(realpath -m "$2")"
wt="$(mktemp -d /tmp/vfg4.XXXXXX)"
git -C /repo worktree add -q --detach "$wt" HEAD
( cd "$wt" && git apply "$in" && /venv/bin/python antlr/antlr_build.py >/dev/null 2>&1 && git add -A && git diff --cached HEAD -- src/pymoca > "$out" )
git -C /repo worktree remove --force "$wt"; rm -rf "$wt"
wc -l "$out"
