#!/venv/bin/python
"""usage: tools/take_strengthen.py CXX -- apply technique/text/note replacements found in out/notes/CXX_strengthen.md
(lines `technique: ...`, `text: ...`, `note: ...`, value in backticks or quotes, possibly spanning lines until a blank line)"""
import re, subprocess, sys
for pid in sys.argv[1:]:
    s = open('/verif/out/notes/%s_strengthen.md' % pid).read()
    blocks = [b for b in re.findall(r"```python\n(.*?)```", s, re.S) if b.lstrip().startswith("reg(")]
    if blocks:
        got = {}
        def reg(pid_, engine, level, technique, text, note, design=None):
            got.update(technique=technique, text=text, note=note)
        exec(blocks[0], {"reg": reg})
        for field in ("technique", "text", "note"):
            subprocess.run(['/verif/tools/set_reg.py', pid, field], input=got[field], text=True, check=True)
        subprocess.run(['cp', '/verif/out/notes/%s_strengthen.md' % pid, '/verif/notes/'])
        continue
    for field in ("technique", "text", "note"):
        m = re.search(r'\n\**%s\**:\**\s*(.+?)\n\s*\n' % field, s + "\n\n", re.S)
        if not m:
            print(pid, field, "not found"); continue
        val = m.group(1).strip()
        if val.lower().startswith("unchanged"):
            print(pid, field, "unchanged"); continue
        val = val.strip("`").strip()
        if val.startswith('"') and val.endswith('"'):
            val = val[1:-1]
        val = re.sub(r'"\s*\n\s*"', '', val)
        subprocess.run(['/verif/tools/set_reg.py', pid, field], input=val, text=True, check=True)
    subprocess.run(['cp', '/verif/out/notes/%s_strengthen.md' % pid, '/verif/notes/'])
