#!/venv/bin/python
"""Regenerate /verif/MANIFEST.json from vf/registry.py and validate it."""
import json, os, sys
sys.path.insert(0, os.path.dirname(os.path.dirname(os.path.abspath(__file__))))
from vf import registry

V = os.path.dirname(os.path.dirname(os.path.abspath(__file__)))
props = [json.loads(l) for l in open(os.path.join(V, "properties.jsonl"))]
ids = [p["id"] for p in props]
checks = []
for pid in ids:
    c = registry.CHECKS.get(pid)
    if not c:
        continue
    checks.append({
        "property_id": pid,
        "quick_cmd": "/venv/bin/python -m vf.run %s --tier quick" % pid,
        "thorough_cmd": "/venv/bin/python -m vf.run %s --tier thorough" % pid,
        "evidence_file": "/verif/evidence/%s.json" % pid,
        "replay_cmd_template": "/venv/bin/python -m vf.run %s --replay {path}" % pid,
        "engine": c["engine"],
        "level_claimed": {"category": c["level"], "text": c["text"], "design_ref": c["design"]},
        "level_note": c["note"],
        "technique": c["technique"],
    })
engines = []
for e in registry.ENGINES:
    e = dict(e)
    e["serves_properties"] = [pid for pid in ids if registry.CHECKS.get(pid, {}).get("engine") == e["name"]]
    engines.append(e)
hooks_commits = getattr(registry, "HOOK_COMMITS", [])
na = getattr(registry, "NOT_APPLICABLE", {})
m = {
    "version": 1,
    "setup_cmd": "/venv/bin/python -m vf.selfcheck",
    "hooks": {
        "guard": "PYMOCA_VERIF",
        "enable": "none needed: every seam is a module global rebound from the harness; checks import pymoca from /repo/src as it stands (no build step)",
        "baseline_off_cmd": "cd /repo && /venv/bin/python -m pytest -ra -q -p no:cacheprovider --timeout=900 --continue-on-collection-errors",
        "source_commits": hooks_commits,
        "add_only": True,
    },
    "engines": engines,
    "checks": checks,
    "notes": "All checks are bounded exhaustive explorations of the real code (see DESIGN.md). Known genuine defects that are recorded rather than repaired are listed in /verif/known_findings.json.",
    "not_applicable": [
        {"property_id": pid, "reason": na.get(pid, registry.NOT_DONE_REASON)}
        for pid in ids if pid not in registry.CHECKS
    ],
}
import jsonschema
jsonschema.validate(m, json.load(open("/root/.vp/MANIFEST.schema.json")))
with open(os.path.join(V, "MANIFEST.json"), "w") as f:
    json.dump(m, f, indent=1)
    f.write("\n")
print("MANIFEST.json: %d checks, %d not_applicable" % (len(checks), len(m["not_applicable"])))
