#!/bin/bash
# usage: tools/seedcheck.sh <patch.diff> <demo.py|-> <CHECK-ID>[,<CHECK-ID>...] [tier] [skipverify]
# Confirms a seeded change (demo passes without / fails with it, pinned suite still 131/131) in a scratch
# worktree of /repo HEAD, then runs the named checks against that worktree (VERIF_REPO) and reports rc per check.
set -u
patch="$(realpath "$1")"; demo="$2"; checks="$3"; tier="${4:-quick}"; skip="${5:-}"
[ "$demo" != "-" ] && demo="$(realpath "$demo")"
wt="$(mktemp -d /tmp/vfseed.XXXXXX)"
git -C /repo worktree add -q --detach "$wt" HEAD >/dev/null 2>&1 || { echo "worktree failed"; exit 9; }
cleanup() { git -C /repo worktree remove --force "$wt" >/dev/null 2>&1; rm -rf "$wt"; }
trap cleanup EXIT
if [ -z "$skip" ] && [ "$demo" != "-" ]; then
  PYTHONPATH="$wt/src:$wt" timeout 300 /venv/bin/python "$demo" "$wt" >/dev/null 2>&1; echo "demo without change: rc=$?"
fi
if ! git -C "$wt" apply "$patch"; then echo "PATCH DOES NOT APPLY to /repo HEAD"; exit 9; fi
if [ -z "$skip" ]; then
  if [ "$demo" != "-" ]; then PYTHONPATH="$wt/src:$wt" timeout 300 /venv/bin/python "$demo" "$wt" >/dev/null 2>&1; echo "demo with change: rc=$?"; fi
  /verif/tools/baseline.sh "$wt" | head -5
fi
cd /verif
for id in ${checks//,/ }; do
  out=$(VERIF_REPO="$wt" /venv/bin/python -m vf.run "$id" --tier "$tier" 2>&1); rc=$?
  sigs=$(echo "$out" | grep -E '^  -- ' | sed 's/^  -- \([^ ]*\).*/\1/' | sort -u | head -3 | tr '\n' ' ')
  echo "check $id ($tier): rc=$rc $sigs"
done
