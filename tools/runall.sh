#!/bin/bash
# usage: tools/runall.sh [tier]  -- run every registered check's command once (VERIF_SEED=1), one line each
tier="${1:-quick}"
cd /verif
for id in $(/venv/bin/python -c "
import json; print(' '.join(c['property_id'] for c in json.load(open('MANIFEST.json'))['checks']))"); do
  s=$(date +%s)
  out=$(VERIF_SEED=1 VERIF_TIER=$tier /venv/bin/python -m vf.run $id --tier $tier 2>&1); rc=$?
  e=$(date +%s)
  echo "$id rc=$rc wall=$((e-s))s $(echo "$out" | grep -c '^VIOLATION') violation-lines $(echo "$out" | grep -c '^KNOWN-FINDING') known"
done
